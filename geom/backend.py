"""geom -- run the *real construction path* of cubed on arrays that have metadata only, and evaluate the
resulting real plan on abstract blocks.

* stub_array(name, shape, chunksize): a real cubed Array (created with __new__) backed by a metadata stub, with a
  real single-node Plan; shape and chunk sizes may be symbolic.
* install(): in the check process only, binds in every loaded cubed module
    - isinstance / int / np   -> sx shims that treat proxies as ints
    - nxp                     -> stubs.anp.Namespace (abstract NumPy)
    - _create_zarr_indexer    -> stubs.indexer_model shim (real zarr when everything is concrete)
    - numpy_array_to_backend_array / backend_array_to_numpy_array -> identity on abstract arrays
  No cubed function is replaced.
* Evaluator(dag): runs real tasks (real key function, real map_nested, real block function) of a real plan dag
  (optimized or not) on abstract blocks; elem_of(array, index) gives the provenance term of one element.
"""
from __future__ import annotations

import sys

import numpy as np

from engine import loader, sx
from stubs import anp, indexer_model

_INSTALLED = False
ANP = None


class ZStub:
    """metadata of a stored source array (stands for a zarr.Array that is only ever described, never read)"""

    def __init__(self, shape, chunks, dtype, shards=None):
        self.shape = tuple(shape)
        self.chunks = tuple(chunks)
        self.dtype = np.dtype(dtype)
        self.shards = shards
        self.ndim = len(self.shape)

    @property
    def nbytes(self):
        return anp._prod(self.shape) * self.dtype.itemsize

    @property
    def nchunks(self):
        p = 1
        for n, c in zip(self.shape, self.chunks):
            p = p * (-((-n) // c))
        return p

    def __repr__(self):
        return f"ZStub(shape={self.shape}, chunks={self.chunks})"


class NpShim(sx.NpShim):
    """integer kernels of numpy used on shapes/offsets accept proxies"""

    def unravel_index(self, offset, shape):
        if not (isinstance(offset, sx.SInt) or any(isinstance(s, sx.SInt) for s in shape)):
            return self._real.unravel_index(offset, shape)
        out = []
        total = 1
        for s in shape:
            total = total * s
        if offset < 0 or offset >= total:
            raise ValueError("index is out of bounds for array with given size")
        for s in reversed(shape):
            out.append(offset % s)
            offset = offset // s
        return tuple(reversed(out))

    def geomspace(self, start, stop, num=50, **kw):
        """endpoints are returned exactly by NumPy (endpoint=True); with num == 2 there is nothing in between.
        For more points the endpoints are forked by value and real NumPy is called."""
        seqs = isinstance(start, (tuple, list))
        flat = list(start) + list(stop) if seqs else [start, stop]
        if not any(isinstance(v, (sx.SInt, sx.SRat)) for v in flat) and not isinstance(num, sx.SInt):
            return self._real.geomspace(start, stop, num, **kw)
        num = sx.conc(num)
        if num == 2:
            return [list(start), list(stop)] if seqs else [start, stop]
        if num < 2:
            raise anp.Unsupported("np.geomspace with num < 2")
        # interior points: the endpoints are forked by value (the solver enumerates every feasible pair under the
        # path condition) and the real np.geomspace is called on them, so no model of its rounding is needed
        starts = [sx.conc(v) for v in (start if seqs else [start])]
        stops = [sx.conc(v) for v in (stop if seqs else [stop])]
        if seqs:
            return self._real.geomspace(starts, stops, num, **kw)
        return self._real.geomspace(starts[0], stops[0], num, **kw)

    def ravel_multi_index(self, idx, shape):
        if not (any(isinstance(i, sx.SInt) for i in idx) or any(isinstance(s, sx.SInt) for s in shape)):
            return self._real.ravel_multi_index(idx, shape)
        off = 0
        for i, s in zip(idx, shape, strict=True):
            if i < 0 or i >= s:
                raise ValueError("invalid entry in coordinates array")
            off = off * s + i
        return off


def _ident(x, *a, **k):
    return x


def install():
    """bind the shims in every loaded cubed module (idempotent)"""
    global _INSTALLED, ANP
    import cubed  # noqa: F401
    import cubed.array_api  # noqa: F401
    import cubed.array_api.linalg  # noqa: F401
    import cubed.core.groupby  # noqa: F401
    import cubed.core.gufunc  # noqa: F401
    import cubed.array.nan_functions  # noqa: F401
    import cubed.array.overlap  # noqa: F401
    import cubed.array.pad  # noqa: F401
    import cubed.random  # noqa: F401
    from cubed.backend_array_api import namespace as real_nxp
    import cubed.core.ops as ops

    if _INSTALLED:
        return
    ANP = anp.Namespace(real_nxp)
    real_create = ops._create_zarr_indexer
    loader.record(real_create)
    shim_create = indexer_model.make_shim(real_create)
    npshim = NpShim(np)
    for name, mod in list(sys.modules.items()):
        if not name.startswith("cubed") or mod is None:
            continue
        d = mod.__dict__
        d["isinstance"] = sx.sx_isinstance
        d["int"] = sx.SxInt
        if d.get("np") is np:
            d["np"] = npshim
        if d.get("nxp") is real_nxp:
            d["nxp"] = ANP
        if "_create_zarr_indexer" in d:
            d["_create_zarr_indexer"] = shim_create
        for f in ("numpy_array_to_backend_array", "backend_array_to_numpy_array"):
            if f in d:
                d[f] = _ident
        if "is_storage_array" in d and not name.endswith("storage.store"):
            real_isa = d["is_storage_array"]
            if not getattr(real_isa, "_verif", False):
                def isa(obj, _real=real_isa):
                    return isinstance(obj, ZStub) or _real(obj)
                isa._verif = True
                d["is_storage_array"] = isa
    _INSTALLED = True


_COUNTER = [0]


def regular_chunks(n, c):
    q, r = divmod(n, c)
    q = sx.conc(q)
    return (c,) * q + ((r,) if r else ())


def stub_array(name, shape, chunksize, dtype="float64", spec=None):
    """a real cubed.Array over a metadata stub, with a real one-node plan"""
    import cubed.array_api.array_object as ao
    from cubed.core.plan import Plan

    dtype = np.dtype(dtype)
    shape = tuple(shape)
    chunksize = tuple(chunksize)
    a = ao.Array.__new__(ao.Array)
    a.name = name
    a._shape = shape
    a._dtype = dtype
    a._chunks = tuple(regular_chunks(n, c) if not (isinstance(n, int) and n == 0) else (0,) for n, c in zip(shape, chunksize))
    a._zarray = ZStub(shape, chunksize, dtype)
    a.spec = spec if spec is not None else default_spec()
    a._plan = _leaf_plan(Plan, name, a._zarray)
    return a


# Plan._new looks for a caller frame whose module name starts with "cubed." (it records the public function
# that created the array); leaf stubs are created from a tiny function compiled under such a module name
_g = {"__name__": "cubed._verif_leaf"}
exec("def _leaf_plan(Plan, name, target):\n    return Plan._new(name, 'stub', target)\n", _g)
_leaf_plan = _g["_leaf_plan"]


_SPEC = None


def default_spec():
    global _SPEC
    if _SPEC is None:
        import cubed

        _SPEC = cubed.Spec(work_dir="/nonexistent-verif", allowed_mem=10**12, reserved_mem=0)
    return _SPEC


def reset_names():
    """restart cubed's name counters so that symbolic and concrete re-runs produce identical names"""
    import cubed.core.array as ca
    import cubed.core.plan as cp
    import cubed.primitive.blockwise as pb

    ca.sym_counter = 0
    cp.sym_counter = 0
    pb.sym_counter = 0
    cp.Plan._finalize.cache_clear() if hasattr(cp.Plan._finalize, "cache_clear") else None


# ---------------------------------------------------------------------------------------------
# evaluation of a real plan on abstract blocks
# ---------------------------------------------------------------------------------------------
class Evaluator:
    def __init__(self, dag, check_block_shapes=True):
        self.dag = dag
        self.nodes = dict(dag.nodes(data=True))
        self.producer = {}  # array name -> (op node name, output index)
        for n, d in self.nodes.items():
            if "primitive_op" in d:
                outs = list(d["pipeline"].config.writes_map.keys()) if hasattr(d["pipeline"].config, "writes_map") else []
                for j, an in enumerate(outs):
                    self.producer[an] = (n, j)
        self.cache = {}
        self.check_block_shapes = check_block_shapes
        self.tasks_run = 0
        self.depth = 0

    # ---- helpers ----
    def target(self, name):
        return self.nodes[name]["target"]

    def is_leaf(self, name):
        return name not in self.producer

    def op_of(self, name):
        return self.nodes[self.producer[name][0]]["primitive_op"]

    def write_chunks(self, name):
        """task grid chunk size of the array's producing op (regular)"""
        op = self.op_of(name)
        return op.pipeline.config.writes_map[name].chunks

    # ---- reading a block the way get_chunk does ----
    def read(self, spec, key):
        from cubed.primitive.blockwise import key_to_slices
        from cubed.storage.virtual import VirtualEmptyArray, VirtualFullArray, VirtualInMemoryArray, VirtualOffsetsArray

        if not isinstance(key.name, str) or key.name not in spec.reads_map:
            raise sx.Violated("key-names-an-array-the-task-cannot-read", f"{key!r}")
        arr = spec.reads_map[key.name].array
        # every key must name an existing block of that array
        nb = _numblocks(arr)
        if len(key.coords) != len(nb):
            raise sx.Violated("key-rank-differs-from-array-rank", f"{key.name}{tuple(key.coords)} for array with {len(nb)} dims")
        for cdim, nbd in zip(key.coords, nb):
            if not sx.sand(cdim >= 0, cdim < nbd):
                raise sx.Violated("key-out-of-range", f"{key.name}{tuple(key.coords)} but the array has {nb} blocks")
        if isinstance(arr, VirtualOffsetsArray):
            sel = key_to_slices(key.coords, arr)
            return arr[sel]
        sel = key_to_slices(key.coords, arr)
        ext = tuple(s.stop - s.start for s in sel)
        if isinstance(arr, VirtualEmptyArray):
            return anp.Const(ext, arr.dtype, "empty")
        if isinstance(arr, VirtualFullArray):
            return anp.Const(ext, arr.dtype, "full", arr.fill_value)
        if isinstance(arr, VirtualInMemoryArray):
            return anp.Src(key.name, tuple(s.start for s in sel), ext, arr.dtype)
        fields = getattr(np.dtype(arr.dtype), "fields", None)
        if fields:  # a structured array is a group of per-field arrays and is read as a dict of blocks (ZarrV3ArrayGroup.__getitem__)
            return {f: StoredRegion(self, key.name, sel, fields[f][0], f) for f in fields}
        return StoredRegion(self, key.name, sel, arr.dtype)

    # ---- running one task ----
    def run_task(self, array_name, coords):
        """results (list, one per output array) of the task that writes block `coords` of array_name's op"""
        import inspect

        from cubed.primitive.blockwise import ChunkKey, key_to_slices, map_nested

        opname, _ = self.producer[array_name]
        coords = tuple(sx.conc(c) for c in coords)
        ck = (opname, coords)
        if ck in self.cache:
            return self.cache[ck]
        pipeline = self.nodes[opname]["pipeline"]
        spec = pipeline.config
        self.tasks_run += 1
        if self.tasks_run > 5000:
            raise sx.Violated("plan-evaluation-does-not-terminate", "more than 5000 task evaluations for one element: the plan is cyclic or self-referential")
        fa = spec.back_key_function(ChunkKey(array_name, coords))
        args = map_nested(lambda k: self.read(spec, k), fa)
        res = spec.function(*args.args)
        if inspect.isgeneratorfunction(spec.function):
            res = tuple(res)
        elif not isinstance(res, tuple):
            res = (res,)
        out = []
        names = list(spec.writes_map.keys())
        if len(res) != len(names):
            raise sx.Violated("number-of-results-differs-from-number-of-outputs", f"{len(res)} results for {names}")
        for r, (an, wp) in zip(res, spec.writes_map.items()):
            region = key_to_slices(coords, wp.array, wp.chunks)
            if self.check_block_shapes:
                check_block_shape(r, region, an, coords)
            out.append((r, region))
        self.cache[ck] = out
        return out

    def task_list(self, array_name):
        """explicit task list of the producing op (region stores), or None for the full block grid"""
        opname, _ = self.producer[array_name]
        m = self.nodes[opname]["pipeline"].mappable
        from cubed.primitive.blockwise import ChunkKeys

        if isinstance(m, ChunkKeys):
            return None
        return [tuple(sx.conc(c) for c in t) for t in m]

    def task_grid(self, array_name):
        """number of task blocks per dimension when the producing op enumerates a full grid (ChunkKeys), else None"""
        opname, _ = self.producer[array_name]
        m = self.nodes[opname]["pipeline"].mappable
        from cubed.primitive.blockwise import ChunkKeys

        if isinstance(m, ChunkKeys):
            return tuple(len(c) for c in m.chunks_normal)
        return None

    def block_of(self, array_name, gidx):
        """(result, region, local index) for the element gidx of a produced array"""
        chunks = self.write_chunks(array_name)
        coords = tuple(sx.conc(g // c) for g, c in zip(gidx, chunks))
        tl = self.task_list(array_name)
        if tl is not None and coords not in tl:
            return None, None, None
        tg = self.task_grid(array_name)
        if tg is not None and (len(tg) != len(coords) or any(not (c < g) for c, g in zip(coords, tg))):
            return None, None, None  # no task of the operation writes this block: the element is never written
        res = self.run_task(array_name, coords)
        r, region = res[self.producer[array_name][1]]
        local = tuple(g - s.start for g, s in zip(gidx, region))
        return r, region, local

    def elem_of(self, array_name, gidx, fieldname=None):
        gidx = tuple(gidx)
        if self.is_leaf(array_name):
            return ("elem", array_name, gidx)
        self.depth += 1
        try:
            if self.depth > 40:
                raise sx.Violated("plan-is-cyclic", f"array {array_name} is (transitively) computed from itself")
            return self._elem_of(array_name, gidx, fieldname)
        finally:
            self.depth -= 1

    def _elem_of(self, array_name, gidx, fieldname=None):
        r, region, local = self.block_of(array_name, gidx)
        if r is None:
            return ("unwritten",)
        if isinstance(r, dict):
            if fieldname is None:
                return ("struct", tuple(sorted((k, v.at(local)) for k, v in r.items())))
            r = r[fieldname]
        return r.at(local)

    def sum_region(self, array_name, rng, gidx, q, fieldname=None):
        """multiplicity of q in the sum over the global ranges rng (axis -> (first,count,stride)) of a stored array"""
        target = self.target(array_name)
        nd = len(target.shape)
        if self.is_leaf(array_name):
            return anp.Src(array_name, (0,) * nd, target.shape, target.dtype).sum_mult(rng, gidx, q)
        chunks = self.write_chunks(array_name)
        # blocks overlapped, per summed axis
        per_axis = []
        for d in range(nd):
            if d in rng:
                first, count, stride = rng[d]
                if not (isinstance(stride, int) and stride == 1):
                    raise anp.Unsupported("strided sum over stored blocks")
                if not (count >= 1):
                    return 0
                b0 = sx.conc(first // chunks[d])
                b1 = sx.conc((first + count - 1) // chunks[d])
                per_axis.append(list(range(b0, b1 + 1)))
            else:
                per_axis.append([sx.conc(gidx[d] // chunks[d])])
        import itertools

        total = 0
        for coords in itertools.product(*per_axis):
            res = self.run_task(array_name, coords)
            r, region = res[self.producer[array_name][1]]
            if isinstance(r, dict):
                r = r[fieldname] if fieldname is not None else next(iter(r.values()))
            sub = {}
            skip = False
            for d in rng:
                c = anp._clip_range(rng[d], region[d].start, region[d].stop - region[d].start)
                if c is None:
                    skip = True
                    break
                sub[d] = c
            if skip:
                continue
            lidx = tuple(None if d in rng else gidx[d] - region[d].start for d in range(nd))
            total = total + r.sum_mult(sub, lidx, q)
        return total


def _numblocks(arr):
    ch = arr.chunks
    if len(ch) and isinstance(ch[0], (tuple, list)):
        return tuple(len(c) for c in ch)
    out = []
    for n, c in zip(arr.shape, ch):
        if isinstance(n, int) and n == 0:
            out.append(1)
        else:
            out.append(-((-n) // c))
    return tuple(out)


def walk_tasks(dag, coord_vars, ev=None):
    """run one task of every operation of the plan at a symbolic block coordinate (coord_vars: list of ints/proxies,
    used per dimension, assumed in range): block shapes vs regions, key validity, function/key-function exceptions"""
    ev = ev or Evaluator(dag)
    for opname, op in all_ops(dag):
        spec = op.pipeline.config
        if not hasattr(spec, "writes_map"):
            continue
        an, wp = next(iter(spec.writes_map.items()))
        from cubed.utils import normalize_chunks, to_chunksize

        tgt = wp.array
        nb = []
        for n, c in zip(tgt.shape, wp.chunks):
            nb.append(1 if (isinstance(n, int) and n == 0) else -((-n) // c))
        tg = ev.task_grid(an)
        if tg is not None:
            # the operation's tasks (one per key of its ChunkKeys grid) must be exactly the blocks of the array they write
            if len(tg) != len(nb) or any(not (g == nbd) for g, nbd in zip(tg, nb)):
                raise sx.Violated("task-grid-differs-from-the-output-grid", f"{opname} -> {an}: tasks over a {tg} grid, output has {tuple(nb)} blocks (chunks {wp.chunks}, shape {tgt.shape})")
        coords = []
        for d, nbd in enumerate(nb):
            v = coord_vars[d] if d < len(coord_vars) else 0
            coords.append(v % sx.conc(nbd))  # independent of other ops: v ranges over >= max number of blocks (block count forked by value: keeps the arithmetic linear)
        ev.run_task(an, tuple(coords))
    return ev


def check_block_shape(r, region, array_name, coords):
    """C12: the block a task returns has exactly the shape of the region it is written into"""
    ext = tuple(s.stop - s.start for s in region)
    vals = list(r.values()) if isinstance(r, dict) else [r]
    for v in vals:
        shp = getattr(v, "shape", None)
        if shp is None:
            continue
        if len(shp) != len(ext):
            # numpy/zarr would broadcast lower-rank values; anything else raises inside the task
            raise sx.Violated("block-rank-differs-from-region", f"{array_name}{coords}: block shape {shp} region {ext}")
        for a, b in zip(shp, ext):
            if not (a == b):
                raise sx.Violated("block-shape-differs-from-region", f"{array_name}{coords}: block shape {shp} region extent {ext}")


class StoredRegion(anp.AArr):
    """what arr[selection] returns for a stored array: lazily the elements of that region"""

    def __init__(self, ev, name, sel, dtype, fieldname=None):
        super().__init__(tuple(s.stop - s.start for s in sel), dtype)
        self.ev = ev
        self.name = name
        self.sel = sel
        self.fieldname = fieldname

    def at(self, idx):
        return self.ev.elem_of(self.name, tuple(s.start + i for s, i in zip(self.sel, idx)), self.fieldname)

    def sum_mult(self, rng, idx, q):
        grng = {d: (self.sel[d].start + r[0], r[1], r[2]) for d, r in rng.items()}
        gidx = tuple(None if (d in rng or idx[d] is None) else self.sel[d].start + idx[d] for d in range(self.ndim))
        return self.ev.sum_region(self.name, grng, gidx, q, self.fieldname)

    def field(self, name):
        return StoredRegion(self.ev, self.name, self.sel, self.dtype, name)


def all_ops(dag):
    """(op node name, primitive op) in topological order"""
    import networkx as nx

    out = []
    for n in nx.topological_sort(dag):
        d = dag.nodes[n]
        if "primitive_op" in d:
            out.append((n, d["primitive_op"]))
    return out
