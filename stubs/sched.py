"""`sched` -- nondeterministic stand-ins for asyncio.wait / asyncio.Future / time, driven by an oracle.

Contract (the documented behaviour of the real thing, nothing more):
  asyncio.wait(pending, FIRST_COMPLETED, timeout):  ANY subset of the pending futures (possibly empty =
      timeout expired) has completed when it returns; each completed future carries either a result or
      an exception; futures never change state outside wait().
  time.monotonic():  arbitrary non-decreasing instants.
  time.time():       arbitrary (only stored in stats).
Futures are created by the harness's create_futures_func, numbered in creation order (uid), and the
shim visits pending futures in uid order so that symbolic and concrete runs see the same order.

The oracle is a list of integer variables (symbolic under sx, plain ints on replay):
  outcome values: 0 = still running, 1 = completed successfully, 2 = completed with an exception.
Exhausting the oracle raises sx.Unreachable: the scenario lies outside the explored bound.
"""
from __future__ import annotations

from engine import sx


class TaskError(Exception):
    """the task's own error"""

    def __init__(self, inp, uid):
        super().__init__(f"task for input {inp} (submission {uid}) failed")
        self.inp = inp
        self.uid = uid


class Fut:
    __slots__ = ("inp", "exc", "_done", "cancelled_", "is_backup", "uid", "op")

    def __init__(self, inp, is_backup, uid, op=None):
        self.inp = inp
        self.exc = None
        self._done = False
        self.cancelled_ = False
        self.is_backup = is_backup
        self.uid = uid
        self.op = op

    def done(self):
        return self._done

    def exception(self):
        return self.exc

    def result(self):
        if self.exc is not None:
            raise self.exc
        return (self.inp, {})

    def cancel(self):
        self.cancelled_ = True

    def cancelled(self):
        return False

    def __hash__(self):
        return self.uid

    def __eq__(self, o):
        return self is o

    def __repr__(self):
        return f"Fut(uid={self.uid}, inp={self.inp}, backup={self.is_backup})"


class World:
    """per-run environment state"""

    def __init__(self, outcomes, dts, perms=(), max_running=None):
        self.outcomes = list(outcomes)
        self.oi = 0
        self.max_running = max_running  # bound on the number of "still running" observations in one schedule
        self.n_running = 0
        self.max_fail = None  # bound on the number of failed completions in one schedule
        self.n_fail = 0
        self.perms = list(perms)
        self.pi = 0
        self.dts = list(dts)
        self.ti = 0
        self.clock = 0
        self.nfut = 0
        self.subs = []  # all futures ever created
        self.events = []  # trace
        self.wakeups = 0

    def outcome(self):
        if self.oi >= len(self.outcomes):
            raise sx.Unreachable()
        v = self.outcomes[self.oi]
        self.oi += 1
        return v

    def dt(self):
        if self.ti >= len(self.dts):
            raise sx.Unreachable()
        v = self.dts[self.ti]
        self.ti += 1
        return v

    def perm(self, k):
        """oracle-chosen index in [0, k)"""
        if k <= 1:
            return 0
        if self.pi >= len(self.perms):
            raise sx.Unreachable()
        v = self.perms[self.pi]
        self.pi += 1
        sx.assume(v < k)
        return sx.conc(v)

    def new_future(self, inp, is_backup, op=None):
        self.nfut += 1
        f = Fut(inp, is_backup, self.nfut, op)
        self.subs.append(f)
        self.events.append(("submit", op, inp, f.uid, is_backup))
        return f


WORLD: World | None = None


class FinishedSet:
    """the `done` set returned by wait(): only iterated by the code under test; order chosen by the oracle"""

    def __init__(self, items):
        self._items = list(items)

    def __iter__(self):
        return iter(self._items)

    def __len__(self):
        return len(self._items)

    def __contains__(self, x):
        return any(x is i for i in self._items)


class ShimAsyncio:
    FIRST_COMPLETED = "FIRST_COMPLETED"
    Future = Fut

    @staticmethod
    async def wait(pending, return_when=None, timeout=None):
        w = WORLD
        w.wakeups += 1
        pend = sorted(pending, key=lambda f: f.uid)
        finished = set()
        rest = set()
        for f in pend:
            o = w.outcome()
            if o == 0 and w.max_running is not None:
                w.n_running += 1
                if w.n_running > w.max_running:
                    raise sx.Unreachable()
            if o == 1:
                f._done = True
                finished.add(f)
                w.events.append(("complete", f.op, f.inp, f.uid, "ok"))
            elif o == 2:
                if w.max_fail is not None:
                    w.n_fail += 1
                    if w.n_fail > w.max_fail:
                        raise sx.Unreachable()
                f._done = True
                f.exc = TaskError(f.inp, f.uid)
                finished.add(f)
                w.events.append(("complete", f.op, f.inp, f.uid, "fail"))
            else:
                rest.add(f)
        # the real wait() returns a set: its iteration order is arbitrary -> chosen by the oracle
        order = sorted(finished, key=lambda f: f.uid)
        out = []
        while order:
            out.append(order.pop(w.perm(len(order))))
        return FinishedSet(out), rest


class ShimTime:
    @staticmethod
    def time():
        return 0.0

    @staticmethod
    def monotonic():
        w = WORLD
        w.clock = w.clock + w.dt()
        return w.clock


def drive(agen, max_steps=200):
    """run an async generator to completion by hand (the shims never suspend)

    returns (yielded values, exception or None)"""
    results = []
    for _ in range(max_steps):
        co = agen.__anext__()
        try:
            co.send(None)
        except StopIteration as si:
            results.append(si.value)
            continue
        except StopAsyncIteration:
            return results, None
        except (sx.Unreachable, sx.Infeasible, sx.Budget, sx.Violated):
            raise
        except Exception as e:  # noqa: BLE001
            return results, e
        raise RuntimeError("coroutine suspended: a shim awaited something real")
    raise sx.Unreachable()


def run_coro(co):
    """run a coroutine to completion by hand"""
    try:
        co.send(None)
    except StopIteration as si:
        return si.value
    raise RuntimeError("coroutine suspended: a shim awaited something real")


# ---------------------------------------------------------------------------------------------
# aiostream stand-ins (stream.iterate / stream.merge): contract = an async iterator over the source(s);
# merge yields the items of its sources in an arbitrary interleaving chosen by the oracle
# ---------------------------------------------------------------------------------------------
class SObj:
    """stands for an aiostream Stream: .stream() gives an async context manager yielding an async iterator"""

    def __init__(self, agen):
        self.agen = agen

    def stream(self):
        return self

    async def __aenter__(self):
        return self.agen

    async def __aexit__(self, *a):
        return False


class ShimStream:
    @staticmethod
    def iterate(agen):
        return SObj(agen)

    @staticmethod
    def merge(*streams):
        async def merged():
            its = [s.agen for s in streams]
            live = list(range(len(its)))
            while live:
                j = live[WORLD.perm(len(live))]  # arbitrary interleaving: the oracle picks the source polled next
                try:
                    item = await its[j].__anext__()
                except StopAsyncIteration:
                    live.remove(j)
                    continue
                yield item

        return SObj(merged())


def validate(n_scripts=60, seed=0):
    """replay random scripts on a real event loop with real futures: the real asyncio.wait must be able to produce
    the (done, pending) split the shim produced, and the driven generator must yield the same results"""
    import asyncio
    import random

    rnd = random.Random(seed)
    checked = 0
    for _ in range(n_scripts):
        n = rnd.randint(1, 4)
        script = [[rnd.choice([0, 1, 1, 2]) for _ in range(n)] for _ in range(4)]

        async def real():
            loop = asyncio.get_running_loop()
            futs = [loop.create_future() for _ in range(n)]
            pending = set(futs)
            log = []
            for wave in script:
                if not pending:
                    break
                for f, o in zip(futs, wave):
                    if f in pending and not f.done():
                        if o == 1:
                            f.set_result(1)
                        elif o == 2:
                            f.set_exception(TaskError(0, 0))
                done, pending = await asyncio.wait(pending, return_when=asyncio.FIRST_COMPLETED, timeout=0.001)
                log.append((sorted(futs.index(f) for f in done), sorted(futs.index(f) for f in pending)))
                for f in done:
                    f.exception()
            return log

        def shim():
            global WORLD
            futs = [Fut(i, False, i + 1) for i in range(n)]
            pending = set(futs)
            log = []
            for wave in script:
                if not pending:
                    break
                outs = [wave[f.uid - 1] for f in sorted(pending, key=lambda f: f.uid)]
                WORLD = World(outs, [], [0] * 8)
                done, pending = run_coro(ShimAsyncio.wait(pending))
                log.append((sorted(f.uid - 1 for f in done), sorted(f.uid - 1 for f in pending)))
            return log

        a = asyncio.run(real())
        b = shim()
        assert a == b, (script, a, b)
        checked += 1
    return checked
