"""IndexerModel -- stands for cubed.core.ops._create_zarr_indexer (zarr OrthogonalIndexer over regular or
rectilinear grids) when shapes / chunk sizes / slice bounds are symbolic.

A port of zarr 3.3 SliceDimIndexer / IntDimIndexer / OrthogonalIndexer.__iter__ restricted to
slice(start, stop, step>=1) and integer selections (integer *array* selections are concrete NumPy arrays and
are delegated to the real zarr indexer).  Contract per dimension: the chunk coordinates touched, the
in-chunk selection, the out selection; C-order product over dimensions; `.shape`.

When every input is a plain int the shim calls the real zarr indexer instead: the concrete re-validation of
every explored path therefore doubles as a differential test of this model against zarr.
validate() additionally compares model and zarr exhaustively on small grids at check start.
"""
from __future__ import annotations

import itertools
from typing import NamedTuple

from engine import sx


class ChunkProjection(NamedTuple):
    chunk_coords: tuple
    chunk_selection: tuple
    out_selection: tuple
    is_complete_chunk: bool


class _DimProj(NamedTuple):
    dim_chunk_ix: object
    dim_chunk_sel: object
    dim_out_sel: object
    is_complete_chunk: object


def _sym(x):
    return isinstance(x, (sx.SInt, sx.SRat))


def _ceildiv(a, b):
    return -((-a) // b)


class _Grid:
    """one dimension of a chunk grid: regular (int size) or rectilinear (tuple of sizes)"""

    def __init__(self, dim_len, sizes):
        self.dim_len = dim_len
        self.sizes = sizes
        self.regular = not isinstance(sizes, (tuple, list))
        if not self.regular:
            self.offsets = [0]
            for s in sizes:
                self.offsets.append(self.offsets[-1] + s)

    def index_to_chunk(self, i):
        if self.regular:
            return sx.conc(i // self.sizes)
        # first k with offsets[k+1] > i
        for k in range(len(self.sizes)):
            if i < self.offsets[k + 1]:
                return k
        raise IndexError("index out of bounds for rectilinear grid")

    def chunk_offset(self, k):
        return k * self.sizes if self.regular else self.offsets[k]

    def data_size(self, k):
        if self.regular:
            rest = self.dim_len - k * self.sizes
            return self.sizes if self.sizes <= rest else rest
        return self.sizes[k]


def _slice_indices(sl, n):
    """slice.indices(n) for step >= 1 with symbolic fields"""
    step = 1 if sl.step is None else sl.step
    if not (step >= 1):
        raise IndexError("only slices with step >= 1 are supported.")

    def norm(v, default):
        if v is None:
            return default
        if v < 0:
            v = v + n
            if v < 0:
                v = 0
        elif v > n:
            v = n
        return v

    return norm(sl.start, 0), norm(sl.stop, n), step


class _SliceDim:
    def __init__(self, sl, dim_len, grid):
        self.start, self.stop, self.step = _slice_indices(sl, dim_len)
        self.grid = grid
        d = _ceildiv(self.stop - self.start, self.step)
        self.nitems = d if d > 0 else 0

    def __iter__(self):
        if self.start >= self.stop:
            return
        g = self.grid
        frm = g.index_to_chunk(self.start) if self.start > 0 else 0
        to = g.index_to_chunk(self.stop - 1) + 1 if self.stop > 0 else 0
        for k in range(frm, to):
            off = g.chunk_offset(k)
            clen = g.data_size(k)
            limit = off + clen
            if self.start < off:
                s0 = 0
                rem = (off - self.start) % self.step
                if rem:
                    s0 = s0 + self.step - rem
                out_off = _ceildiv(off - self.start, self.step)
            else:
                s0 = self.start - off
                out_off = 0
            if self.stop > limit:
                s1 = clen
            else:
                s1 = self.stop - off
            nitems = _ceildiv(s1 - s0, self.step)
            if nitems == 0:
                continue
            complete = sx.sand(s0 == 0, self.stop >= limit, self.step == 1)
            yield _DimProj(k, slice(s0, s1, self.step), slice(out_off, out_off + nitems), complete)


class _IntDim:
    nitems = 1

    def __init__(self, i, dim_len, grid):
        if i < 0:
            i = i + dim_len
        if i < 0 or i >= dim_len:
            raise IndexError("index out of bounds")
        self.i = i
        self.grid = grid

    def __iter__(self):
        g = self.grid
        k = g.index_to_chunk(self.i)
        yield _DimProj(k, self.i - g.chunk_offset(k), None, g.data_size(k) == 1)


class IndexerModel:
    def __init__(self, selection, shape, chunks):
        if not isinstance(selection, tuple):
            selection = (selection,)
        self.dims = []
        for sel, n, c in zip(selection, shape, chunks, strict=True):
            g = _Grid(n, c)
            if isinstance(sel, slice):
                self.dims.append(_SliceDim(sel, n, g))
            else:
                self.dims.append(_IntDim(sel, n, g))
        self.shape = tuple(d.nitems for d in self.dims if not isinstance(d, _IntDim))

    def __iter__(self):
        for projs in itertools.product(*[list(d) for d in self.dims]):
            yield ChunkProjection(
                tuple(p.dim_chunk_ix for p in projs),
                tuple(p.dim_chunk_sel for p in projs),
                tuple(p.dim_out_sel for p in projs if p.dim_out_sel is not None),
                all(bool(p.is_complete_chunk) for p in projs) if False else None,
            )


def _all_concrete(selection, shape, chunks):
    def c(v):
        if v is None or isinstance(v, (bool,)):
            return True
        if _sym(v):
            return False
        if isinstance(v, slice):
            return c(v.start) and c(v.stop) and c(v.step)
        if isinstance(v, (tuple, list)):
            return all(c(i) for i in v)
        return True

    return c(selection) and c(shape) and c(chunks)


_REAL = None
STATS = {"model": 0, "zarr": 0}


def make_shim(real_create):
    """replacement for cubed.core.ops._create_zarr_indexer"""

    def _create_zarr_indexer(selection, shape, chunks):
        import numpy as np

        sel_t = selection if isinstance(selection, tuple) else (selection,)
        if any(isinstance(s, np.ndarray) for s in sel_t) and not _all_concrete(selection, shape, chunks):
            # integer-array selections are not modelled: fork shape / chunk sizes / slice bounds by value and use the real indexer
            from engine import sx

            def cc(v):
                if isinstance(v, slice):
                    return slice(cc(v.start), cc(v.stop), cc(v.step))
                if isinstance(v, (tuple, list)):
                    return type(v)(cc(i) for i in v)
                return sx.conc(v) if _sym(v) else v

            selection, shape, chunks = cc(selection), cc(shape), cc(chunks)
        if any(isinstance(s, np.ndarray) for s in sel_t) or _all_concrete(selection, shape, chunks):
            STATS["zarr"] += 1
            return real_create(selection, shape, chunks)
        STATS["model"] += 1
        return IndexerModel(selection, shape, chunks)

    return _create_zarr_indexer


def validate(nmax=6):
    """exhaustive differential test of the model against zarr on small 1-d/2-d grids; returns #cases"""
    from cubed.core.ops import _create_zarr_indexer as real

    def norm(it):
        out = []
        for cp in it:
            out.append((tuple(cp[0]), tuple((s.start, s.stop, s.step) if isinstance(s, slice) else int(s) for s in cp[1]),
                        tuple((s.start, s.stop) for s in cp[2])))
        return out

    cases = 0
    for n in range(1, nmax + 1):
        grids = [c for c in range(1, n + 1)]
        # a few rectilinear grids
        rect = [(1,) * n] + ([(n - 1, 1)] if n >= 2 else []) + ([(1, n - 1)] if n >= 2 else []) + ([(2, n - 2)] if n >= 4 else [])
        for c in grids + rect:
            for start in [None] + list(range(0, n + 1)):
                for stop in [None] + list(range(0, n + 2)):
                    for step in (None, 1, 2, 3):
                        sel = (slice(start, stop, step),)
                        r = real(sel, (n,), (c,))
                        m = IndexerModel(sel, (n,), (c,))
                        assert tuple(r.shape) == tuple(int(x) for x in m.shape), (sel, n, c, r.shape, m.shape)
                        assert norm(r) == norm(m), (sel, n, c, norm(r), norm(m))
                        cases += 1
            for i in range(-n, n):
                sel = (i, slice(None))
                r = real(sel, (n, 3), (c, 2))
                m = IndexerModel(sel, (n, 3), (c, 2))
                assert tuple(r.shape) == tuple(m.shape)
                assert norm(r) == norm(m), (sel, n, c, norm(r), norm(m))
                cases += 1
    return cases
