"""A model of the part of zarr-python 3.x's hierarchy API that cubed's storage layer calls when it creates or opens arrays:

    zarr.create_array(store=, name=, shape=, dtype=, chunks=, overwrite=False, ...)
    zarr.open_array(store=, path=)
    zarr.open_group(store=, mode=, path=)
    Group.create_array(name, shape=, dtype=, chunks=, overwrite=False, ...), Group[name]
    zarr.errors.ContainsArrayError / ContainsGroupError / ArrayNotFoundError / GroupNotFoundError

The store is a mapping  node path -> Node(kind, token).  `token` stands for the chunk data stored under the node: a node created
by the model has the fresh token None (only fill values), a node of the pre-state can carry a token "written"; deleting or
overwriting a node loses its token (and the tokens of everything underneath).  Whether a node exists in the PRE-state may be a
solver value (sx.SBool): the existence tests below branch on it, which is how the engine explores every pre-state.

`validate()` replays every combination of (operation, mode, overwrite, what exists at the path) on the real zarr with a
MemoryStore and compares outcome class and surviving data with the model; it runs in the setup of the obligations using it.
"""
from __future__ import annotations


class ContainsArrayError(ValueError):
    pass


class ContainsGroupError(ValueError):
    pass


class NodeNotFoundError(FileNotFoundError):
    pass


class ArrayNotFoundError(NodeNotFoundError):
    pass


class GroupNotFoundError(NodeNotFoundError):
    pass


class NodeTypeValidationError(ValueError):
    pass


class _Errors:
    NodeTypeValidationError = NodeTypeValidationError
    ContainsArrayError = ContainsArrayError
    ContainsGroupError = ContainsGroupError
    ArrayNotFoundError = ArrayNotFoundError
    GroupNotFoundError = GroupNotFoundError
    NodeNotFoundError = NodeNotFoundError


class Node:
    def __init__(self, kind, token=None, exists=True, meta=None):
        self.kind = kind  # "array" | "group"
        self.token = token
        self.exists = exists  # bool or sx.SBool (pre-state only)
        self.meta = meta


def _join(*parts):
    return "/".join(p.strip("/") for p in parts if p not in (None, "", "/"))


class ModelArray:
    def __init__(self, model, path):
        self._model = model
        self.path = path
        n = model.nodes[path]
        meta = n.meta or {}
        self.shape = meta.get("shape")
        self.dtype = meta.get("dtype")
        self.chunks = meta.get("chunks")

    @property
    def token(self):
        return self._model.nodes[self.path].token


class ModelGroup:
    def __init__(self, model, path):
        self._model = model
        self.path = path

    def create_array(self, name, *, shape=None, dtype=None, chunks=None, overwrite=False, **kwargs):
        return self._model._create_array(_join(self.path, name), shape, dtype, chunks, overwrite)

    def __getitem__(self, name):
        p = _join(self.path, name)
        if self._model._present(p, "array"):
            return ModelArray(self._model, p)
        if self._model._present(p, "group"):
            return ModelGroup(self._model, p)
        raise KeyError(name)


class ZarrModel:
    """stands in for the `zarr` module inside cubed.storage.stores.zarr_python_v3 (one store; `store=` arguments are the root)"""

    errors = _Errors

    def __init__(self, nodes=None):
        self.nodes = dict(nodes or {})
        self.log = []

    # ---- state helpers -------------------------------------------------------------------------------------------------
    def _present(self, path, kind=None):
        n = self.nodes.get(path)
        if n is None:
            return False
        if kind is not None and n.kind != kind:
            return False
        return bool(n.exists)  # forks when the pre-state flag is a solver value

    def _delete_under(self, path):
        pre = path + "/" if path else ""
        for p in list(self.nodes):
            if p == path or p.startswith(pre):
                self.log.append(("delete", p, self.nodes[p].token))
                del self.nodes[p]

    def _ensure_parents(self, path):
        # zarr v3 does not require (and create_array does not write) intermediate group metadata: implicit groups
        return

    def _create_array(self, path, shape, dtype, chunks, overwrite):
        if overwrite:
            self._delete_under(path)
        else:
            if self._present(path, "array"):
                raise ContainsArrayError(path)
            if self._present(path, "group"):
                raise ContainsGroupError(path)
            self.nodes.pop(path, None)
        self.nodes[path] = Node("array", None, True, dict(shape=shape, dtype=dtype, chunks=chunks))
        self.log.append(("create-array", path))
        return ModelArray(self, path)

    # ---- module-level API ----------------------------------------------------------------------------------------------
    def create_array(self, *, store=None, name=None, shape=None, dtype=None, chunks=None, overwrite=False, **kwargs):
        return self._create_array(_join(name), shape, dtype, chunks, overwrite)

    def open_array(self, *, store=None, path=None, mode=None, **kwargs):
        p = _join(path)
        if self._present(p, "array"):
            return ModelArray(self, p)
        if self._present(p, "group"):
            raise NodeTypeValidationError(p)
        if mode in ("a", "w", "w-"):
            return self._create_array(p, kwargs.get("shape"), kwargs.get("dtype"), kwargs.get("chunks"), mode == "w")
        raise ArrayNotFoundError(p)

    def open_group(self, *, store=None, mode="a", path=None, **kwargs):
        p = _join(path)
        if mode in ("r", "r+", "a"):
            if self._present(p, "group"):
                return ModelGroup(self, p)
            if self._present(p, "array"):
                raise ContainsArrayError(p)
        if mode in ("a", "w", "w-"):
            if mode == "w":
                self._delete_under(p)
            else:
                if self._present(p, "array") or self._present(p, "group"):
                    raise FileExistsError(p)
                self.nodes.pop(p, None)
            self.nodes[p] = Node("group", None, True)
            self.log.append(("create-group", p))
            return ModelGroup(self, p)
        raise GroupNotFoundError(p)


# ---- validation against the real zarr -----------------------------------------------------------------------------------
def _real_prestate(kind_at_path, path, child):
    """a MemoryStore with `kind_at_path` in {None,'array','group','group+child'} at `path`; written data = all 7s"""
    import numpy as np
    import zarr
    from zarr.storage import MemoryStore

    st = MemoryStore()
    if kind_at_path == "array":
        a = zarr.create_array(store=st, name=path, shape=(4,), dtype="float64", chunks=(2,))
        a[:] = np.full(4, 7.0)
    elif kind_at_path in ("group", "group+child"):
        g = zarr.open_group(store=st, mode="w", path=path)
        if kind_at_path == "group+child":
            a = g.create_array(child, shape=(4,), dtype="float64", chunks=(2,))
            a[:] = np.full(4, 7.0)
    return st


def _model_prestate(kind_at_path, path, child):
    p = _join(path)
    nodes = {}
    if kind_at_path == "array":
        nodes[p] = Node("array", "written")
    elif kind_at_path in ("group", "group+child"):
        nodes[p] = Node("group")
        if kind_at_path == "group+child":
            nodes[_join(p, child)] = Node("array", "written")
    return ZarrModel(nodes)


def _real_survivors(st, path, child):
    """which of (path as array, path/child as array) still hold the written data"""
    import numpy as np
    import zarr

    out = {}
    for label, pp in (("at", path), ("child", _join(path, child))):
        try:
            a = zarr.open_array(store=st, path=pp)
            out[label] = "written" if bool(np.all(a[:] == 7.0)) else "fresh"
        except Exception:  # noqa: BLE001
            out[label] = None
    return out


def _model_survivors(m, path, child):
    out = {}
    for label, pp in (("at", _join(path)), ("child", _join(path, child))):
        n = m.nodes.get(pp)
        out[label] = None if n is None or n.kind != "array" else ("written" if n.token == "written" else "fresh")
    return out


def validate():
    """every (operation, mode/overwrite, pre-state, path) combination: same outcome class and same surviving data as real zarr"""
    import zarr

    def cls(fn):
        try:
            fn()
            return "ok"
        except Exception as ex:  # noqa: BLE001
            for nm in ("ContainsArrayError", "ContainsGroupError", "ArrayNotFoundError", "GroupNotFoundError", "NodeTypeValidationError", "FileExistsError"):
                if type(ex).__name__ == nm:
                    return nm
            if isinstance(ex, KeyError):
                return "KeyError"
            if isinstance(ex, FileNotFoundError):
                return "NotFound"
            return "other:" + type(ex).__name__

    n = 0
    bad = []
    child = "f"
    for path in (None, "sub"):
        for pre in (None, "array", "group", "group+child"):
            ops = []
            for ow in (False, True):
                ops.append((f"create_array(overwrite={ow})",
                            lambda z, st, ow=ow: z.create_array(store=st, name=path, shape=(4,), dtype="float64", chunks=(2,), overwrite=ow)))
                ops.append((f"group(a).create_array(overwrite={ow})",
                            lambda z, st, ow=ow: z.open_group(store=st, mode="a", path=path).create_array(child, shape=(4,), dtype="float64", chunks=(2,), overwrite=ow)))
            ops.append(("open_array", lambda z, st: z.open_array(store=st, path=path)))
            for mode in ("r", "r+", "a", "w", "w-"):
                ops.append((f"open_group({mode})", lambda z, st, mode=mode: z.open_group(store=st, mode=mode, path=path)))
                ops.append((f"open_group({mode})[child]", lambda z, st, mode=mode: z.open_group(store=st, mode=mode, path=path)[child]))
            for label, op in ops:
                st = _real_prestate(pre, path, child)
                m = _model_prestate(pre, path, child)
                r_real = cls(lambda: op(zarr, st))
                r_model = cls(lambda: op(m, None))
                if r_real in ("NotFound",) and r_model in ("ArrayNotFoundError", "GroupNotFoundError"):
                    r_real = r_model
                s_real = _real_survivors(st, path, child)
                s_model = _model_survivors(m, path, child)
                if r_real != r_model or s_real != s_model:
                    bad.append(f"zarr model disagrees with zarr {zarr.__version__}: {label} path={path} pre={pre}: real {r_real} {s_real}, model {r_model} {s_model}")
                n += 1
    # an array that is OPENED (not created) reports the layout it was created with, not the one a later create call asked for
    import numpy as np
    from zarr.storage import MemoryStore

    for path in (None, "sub"):
        for (sh0, ch0) in (((4,), (2,)), ((5,), (3,)), ((4,), (1,))):
            st = MemoryStore()
            zarr.create_array(store=st, name=path, shape=sh0, dtype="int32", chunks=ch0)
            m = ZarrModel({_join(path): Node("array", None, True, dict(shape=sh0, dtype=np.dtype("int32"), chunks=ch0))})
            for z, store in ((zarr, st), (m, None)):
                try:
                    z.create_array(store=store, name=path, shape=(4,), dtype="float64", chunks=(2,))
                    bad.append("create_array over an existing array did not raise")
                except Exception as ex:  # noqa: BLE001
                    if type(ex).__name__ != "ContainsArrayError":
                        bad.append(f"create_array over an existing array: {type(ex).__name__}")
                a = z.open_array(store=store, path=path)
                if (tuple(a.shape), tuple(a.chunks), np.dtype(a.dtype)) != (sh0, ch0, np.dtype("int32")):
                    bad.append(f"opened array reports {a.shape} {a.chunks} {a.dtype}, created with {sh0} {ch0} int32 ({'real' if z is zarr else 'model'})")
            n += 1
    if bad:
        raise AssertionError("\n".join(bad))
    return n


if __name__ == "__main__":
    print(validate(), "combinations agree with real zarr")
