"""anp -- abstract stand-in for the NumPy namespace (`nxp`) used by cubed's block functions.

An abstract array (AArr) carries a (possibly symbolic) shape, a dtype and *element provenance*:
  at(idx)               -> term naming where the element at position idx comes from
  sum_mult(rng, idx, q) -> how many times source element q contributes to the sum of the elements selected
                           by the ranges rng (axis -> (first, count, stride)) and the fixed coordinates idx
Only the shape-transfer / index-routing behaviour of NumPy functions is modelled (the documented result
shape and which input positions an output position is computed from); what the function computes on
the values is an uninterpreted symbol.  Every entry is checked against real NumPy on small shapes by
validate().
"""
from __future__ import annotations

import numpy as _np

from engine import sx

SInt = sx.SInt


class Unsupported(sx.Budget):
    """the abstract namespace cannot express this (treated as inconclusive, never as success)"""


def _isint(x):
    return isinstance(x, (int, SInt)) and not isinstance(x, bool)


def _prod(xs):
    p = 1
    for x in xs:
        p = p * x
    return p


def _norm_axis(axis, ndim):
    if axis is None:
        return tuple(range(ndim))
    if _isint(axis):
        axis = (axis,)
    out = []
    for a in axis:
        a = sx.conc(a)
        if a < -ndim or a >= ndim:
            raise ValueError(f"axis {a} is out of bounds for array of dimension {ndim}")
        out.append(a % ndim)
    return tuple(out)


def _eq_all(pairs):
    return sx.sand(*[a == b for a, b in pairs]) if pairs else True


def _in_range(x, rng):
    first, count, stride = rng
    if isinstance(stride, int) and stride == 1:
        return sx.sand(x >= first, x < first + count)
    return sx.sand(x >= first, (x - first) % stride == 0, (x - first) // stride < count)


def _full_range(n):
    return (0, n, 1)


def _clip_range(rng, lo, length):
    """intersection of rng (stride 1) with [lo, lo+length), translated so that lo -> 0"""
    first, count, stride = rng
    if not (isinstance(stride, int) and stride == 1):
        raise Unsupported("strided range over a concatenation / stored blocks")
    a = first if first >= lo else lo
    hi1 = first + count
    hi2 = lo + length
    b = hi1 if hi1 <= hi2 else hi2
    c = b - a
    if c <= 0:
        return None
    return (a - lo, c, 1)


class Ledger:
    """allocation ledger (C03): bytes of live abstract arrays that own their buffer; peak tracked symbolically.
    An array registers its bytes when created and releases them when CPython frees it (natural refcounting), like NumPy
    buffers; views (basic slices, expand_dims, squeeze, permute, flip, broadcast) own nothing and keep their base alive."""

    def __init__(self):
        self.on = False
        self.current = 0
        self.highs = []
        self.events = []

    def reset(self, on=True):
        self.on = on
        self.current = 0
        self.highs = []  # live bytes after every allocation: the peak is their maximum (kept as a list: no nested ite terms)
        self.events = []

    def alloc(self, n, what=""):
        self.current = self.current + n
        self.highs.append(self.current)
        if len(self.events) < 60:
            self.events.append(("+", what, n))

    def free(self, n, what=""):
        self.current = self.current - n
        if len(self.events) < 60:
            self.events.append(("-", what, n))

    def transient(self, n, what=""):
        self.alloc(n, what)
        self.free(n, what)


LEDGER = Ledger()


def _itemsize(dtype):
    try:
        return _np.dtype(dtype).itemsize
    except TypeError:
        return 8


# ---- NumPy's temporary elision ---------------------------------------------------------------------------------------------
# In `a + b + c` NumPy computes the second addition IN PLACE in the temporary holding a + b when that temporary is referenced
# only by the interpreter's value stack (refcount 1), owns its (large) buffer and has the result's dtype and shape
# (numpy/_core/src/multiarray/temp_elide.c).  The ledger reproduces this for the operator dunders, with the same test NumPy uses
# (the reference count of the operand object), calibrated at import on a named and an unnamed operand.
import sys as _sys

_COMMUTATIVE = {"add", "multiply", "bitwise_and", "bitwise_or", "bitwise_xor"}
_ELIDE = [None]
_CAL = {"on": False, "seen": []}
_TEMP_RC = {"self": None, "other": None}


def _same_extent(a, b):
    if len(a) != len(b):
        return False
    for x, y in zip(a, b):
        if isinstance(x, int) and isinstance(y, int):
            if x != y:
                return False
        elif not (x is y or (isinstance(x, SInt) and isinstance(y, SInt) and x.e.eq(y.e))):
            return False
    return True


def _same_dtype(a, b):
    try:
        return _np.dtype(a) == _np.dtype(b)
    except TypeError:
        return False


class AArr:
    __array_priority__ = 1000.0
    _owns = False  # True for classes whose instances own a freshly allocated buffer
    _children = ()  # attribute names dropped in ledger mode (a NumPy result does not keep its inputs alive)

    def __init__(self, shape, dtype):
        self.shape = tuple(shape)
        self.dtype = dtype
        self._led = None
        if LEDGER.on and self._owns:
            n = _prod(self.shape) * _itemsize(dtype)
            t = _ELIDE[0]
            if t is not None and t._led is not None and _same_extent(t.shape, self.shape) and _same_dtype(t.dtype, dtype):
                self._led, t._led = t._led, None  # computed in place in the temporary's buffer
                if len(LEDGER.events) < 60:
                    LEDGER.events.append(("=", "elided " + type(self).__name__, n))
            else:
                self._led = n
                LEDGER.alloc(n, type(self).__name__)
            for a in self._children:  # a NumPy result does not keep its inputs alive
                if a in self.__dict__:
                    setattr(self, a, None)

    def __del__(self):
        n = getattr(self, "_led", None)
        if n is not None and LEDGER.on:
            LEDGER.free(n, type(self).__name__)

    # ---- metadata ----
    @property
    def ndim(self):
        return len(self.shape)

    @property
    def size(self):
        return _prod(self.shape)

    @property
    def nbytes(self):
        return self.size * _np.dtype(self.dtype).itemsize

    def __len__(self):
        return self.shape[0]

    def __repr__(self):
        return f"<{type(self).__name__} shape={self.shape}>"

    # ---- provenance ----
    def at(self, idx):
        raise Unsupported(f"{type(self).__name__}.at")

    def sum_mult(self, rng, idx, q):
        raise Unsupported(f"{type(self).__name__}.sum_mult")

    # ---- indexing ----
    def __getitem__(self, key):
        if isinstance(key, str):
            return self.field(key)
        return make_slice(self, key)

    def field(self, name):
        raise Unsupported(f"{type(self).__name__} has no fields")

    def __setitem__(self, key, value):
        raise Unsupported(f"{type(self).__name__} is read-only")

    # ---- arithmetic ----
    def _bin(self, other, name, swap=False):
        if _CAL["on"]:
            _CAL["seen"].append((_sys.getrefcount(self), _sys.getrefcount(other)))
            return self
        cand = None
        if LEDGER.on and _TEMP_RC["self"] is not None:
            if (not swap or name in _COMMUTATIVE) and self._owns and self._led is not None and _sys.getrefcount(self) <= _TEMP_RC["self"]:
                cand = self
            elif not swap and name in _COMMUTATIVE and isinstance(other, AArr) and other._owns and other._led is not None and _sys.getrefcount(other) <= _TEMP_RC["other"]:
                cand = other
        if cand is None:
            return Elemwise(name, (other, self) if swap else (self, other))
        _ELIDE[0] = cand
        try:
            return Elemwise(name, (other, self) if swap else (self, other))
        finally:
            _ELIDE[0] = None

    def __add__(s, o):
        return s._bin(o, "add")

    def __radd__(s, o):
        return s._bin(o, "add", True)

    def __sub__(s, o):
        return s._bin(o, "subtract")

    def __rsub__(s, o):
        return s._bin(o, "subtract", True)

    def __mul__(s, o):
        return s._bin(o, "multiply")

    def __rmul__(s, o):
        return s._bin(o, "multiply", True)

    def __truediv__(s, o):
        return s._bin(o, "divide")

    def __rtruediv__(s, o):
        return s._bin(o, "divide", True)

    def __pow__(s, o):
        return s._bin(o, "pow")

    def __rpow__(s, o):
        return s._bin(o, "pow", True)

    def __floordiv__(s, o):
        return s._bin(o, "floor_divide")

    def __mod__(s, o):
        return s._bin(o, "remainder")

    def __neg__(s):
        return Elemwise("negative", (s,))

    def __invert__(s):
        return Elemwise("logical_not" if _np.dtype(s.dtype) == _np.dtype(bool) else "bitwise_invert", (s,))

    def __and__(s, o):
        return s._bin(o, "bitwise_and")

    def __or__(s, o):
        return s._bin(o, "bitwise_or")

    def __abs__(s):
        return Elemwise("abs", (s,))

    def __matmul__(s, o):
        return matmul(s, o)

    def __rmatmul__(s, o):
        return matmul(o, s)

    def __eq__(s, o):
        return s._bin(o, "equal")

    def __ne__(s, o):
        return s._bin(o, "not_equal")

    def __lt__(s, o):
        return s._bin(o, "less")

    def __le__(s, o):
        return s._bin(o, "less_equal")

    def __gt__(s, o):
        return s._bin(o, "greater")

    def __ge__(s, o):
        return s._bin(o, "greater_equal")

    __hash__ = object.__hash__

    def astype(self, dtype, copy=True):
        return Elemwise("astype", (self,), dtype=dtype)

    def __bool__(self):
        raise Unsupported("truth value of an abstract array (data-dependent control flow)")

    def __array__(self, *a, **kw):
        raise Unsupported(f"implicit conversion of an abstract {type(self).__name__} to a NumPy array (a NumPy function the stub does not model was called on it)")

    def copy(self):
        return Copy(self)


class Src(AArr):
    """a contiguous block [offset, offset+shape) of the named source array"""

    def __init__(self, name, offset, shape, dtype, fieldname=None):
        super().__init__(shape, dtype)
        self.name = name
        self.offset = tuple(offset)
        self.fieldname = fieldname

    def at(self, idx):
        return ("elem", self.name, tuple(o + i for o, i in zip(self.offset, idx)))

    def sum_mult(self, rng, idx, q):
        qname, j = q
        if qname != self.name:
            return 0
        conds = []
        for d in range(self.ndim):
            local = j[d] - self.offset[d]
            if d in rng:
                conds.append(_in_range(local, rng[d]))
            else:
                conds.append(local == idx[d])
        return sx.ite(sx.sand(*conds), 1, 0) if conds else 1

    def field(self, name):
        return Src(self.name, self.offset, self.shape, self.dtype, name)


class Const(AArr):
    """array filled with a value that is not a function of any source element (empty / full / literal)"""

    def __init__(self, shape, dtype, tag="const", value=None):
        super().__init__(shape, dtype)
        self.tag = tag
        self.value = value

    def at(self, idx):
        return ("const", self.tag, self.value)

    def sum_mult(self, rng, idx, q):
        return 0

    def __setitem__(self, key, value):
        raise Unsupported("assignment into a constant array")


class Assembled(AArr):
    _owns = True
    _children = ()
    """nxp.empty(shape) filled by `out[sel] = value` statements"""

    def __init__(self, shape, dtype):
        super().__init__(shape, dtype)
        self.patches = []  # (region: tuple of (start, count) per dim, value AArr)

    def __setitem__(self, key, value):
        key = key if isinstance(key, tuple) else (key,)
        key = tuple(key) + (slice(None),) * (self.ndim - len(key))
        arr_pos = [d for d, k in enumerate(key) if isinstance(k, (_np.ndarray, list))]
        if arr_pos:
            # out[.., targets, ..] = value with ONE concrete 1-d integer array: one single-element patch per target
            if len(arr_pos) > 1 or not isinstance(value, AArr):
                raise Unsupported("assignment target with more than one integer array")
            d0 = arr_pos[0]
            tg = _np.asarray(key[d0])
            if tg.ndim != 1 or not (value.shape[d0] == len(tg)):
                raise ValueError(f"shape mismatch: value array of shape {value.shape} could not be broadcast to indexing result")
            for j, t in enumerate(tg):
                self.__setitem__(key[:d0] + (slice(int(t), int(t) + 1),) + key[d0 + 1:], make_slice(value, (slice(None),) * d0 + (slice(j, j + 1),)))
            return
        region = []
        for d, k in enumerate(key):
            if not isinstance(k, slice):
                raise Unsupported("non-slice assignment target")
            start = 0 if k.start is None else k.start
            stop = self.shape[d] if k.stop is None else k.stop
            if k.step not in (None, 1):
                raise Unsupported("strided assignment target")
            region.append((start, stop - start))
        if not isinstance(value, AArr):
            raise Unsupported("assigning a non-abstract value")
        # NumPy broadcasts the value into the region; a *mismatch* that is not a broadcast raises in NumPy
        vshape = value.shape
        if len(vshape) != self.ndim:
            raise Unsupported("rank-changing assignment")
        for d in range(self.ndim):
            if not (vshape[d] == region[d][1]):
                if vshape[d] == 1:
                    raise sx.Violated("block-silently-broadcast-on-assignment", f"value shape {vshape} into region {region}")
                raise ValueError(f"could not broadcast input array from shape {vshape} into shape {tuple(r[1] for r in region)}")
        if LEDGER.on:
            value = None  # NumPy copies the data into the buffer: the assigned array is not kept alive
        self.patches.append((tuple(region), value))

    def at(self, idx):
        for region, value in reversed(self.patches):
            inside = sx.sand(*[sx.sand(idx[d] >= region[d][0], idx[d] < region[d][0] + region[d][1]) for d in range(self.ndim)])
            if inside:
                return value.at(tuple(idx[d] - region[d][0] for d in range(self.ndim)))
        return ("uninit",)

    def sum_mult(self, rng, idx, q):
        total = 0
        covered = 0
        want = 1
        for d in rng:
            want = want * rng[d][1]
        for region, value in self.patches:
            sub = {}
            skip = False
            cnt = 1
            for d in range(self.ndim):
                if d in rng:
                    r = _clip_range(rng[d], region[d][0], region[d][1])
                    if r is None:
                        skip = True
                        break
                    sub[d] = r
                    cnt = cnt * r[1]
                else:
                    if not sx.sand(idx[d] >= region[d][0], idx[d] < region[d][0] + region[d][1]):
                        skip = True
                        break
            if skip:
                continue
            lidx = tuple((idx[d] - region[d][0]) if (d not in rng and idx[d] is not None) else None for d in range(self.ndim))
            total = total + value.sum_mult(sub, lidx, q)
            covered = covered + cnt
        if not (covered == want):
            raise sx.Violated("assembled-chunk-has-unwritten-or-doubly-written-elements", f"covered {covered} of {want}")
        return total


_BOOL_RESULT = {"equal", "not_equal", "less", "less_equal", "greater", "greater_equal", "isfinite", "isinf", "isnan", "logical_and", "logical_not",
                "logical_or", "logical_xor", "signbit"}
_FLOAT_RESULT = {"divide", "sqrt", "exp", "expm1", "log", "log1p", "log2", "log10", "sin", "cos", "tan", "sinh", "cosh", "tanh", "asin", "acos", "atan",
                 "asinh", "acosh", "atanh", "atan2", "hypot", "logaddexp", "reciprocal"}


def _result_dtype(fname, args, kw):
    """NumPy's result dtype of an element-wise function (NEP 50: Python scalars are weak): decides how many bytes a temporary takes"""
    if kw.get("dtype") is not None:
        return kw["dtype"]
    if fname == "astype" and len(args) >= 2:
        return args[1]
    first = next((a.dtype for a in args if isinstance(a, AArr)), None)
    if fname in _BOOL_RESULT:
        return _np.dtype(bool)
    try:
        ops = []
        for a in (args[1:] if fname == "where" else args):
            if isinstance(a, AArr):
                ops.append(_np.dtype(a.dtype))
            elif isinstance(a, (_np.ndarray, _np.generic)):
                ops.append(a.dtype)
            elif isinstance(a, (bool, int, float, complex)):
                ops.append(a)
            elif isinstance(a, (SInt,)):
                ops.append(0)
        rt = _np.result_type(*ops) if ops else first
        if fname in _FLOAT_RESULT and _np.dtype(rt).kind in "biu":
            rt = _np.dtype("float64")
        return rt
    except Exception:  # noqa: BLE001 - structured / unknown dtypes: keep the first operand's
        return first


class Elemwise(AArr):
    _owns = True
    _children = ('args',)
    def __init__(self, fname, args, **kw):
        self.fname = fname
        self.args = tuple(args)
        self.kw = kw
        shapes = [a.shape for a in self.args if isinstance(a, AArr)]
        shape = broadcast_shapes(*shapes) if shapes else ()
        dt = _result_dtype(fname, self.args, kw)
        super().__init__(shape, dt)

    def _arg_idx(self, a, idx):
        off = self.ndim - a.ndim
        return tuple(0 if (isinstance(a.shape[d], int) and a.shape[d] == 1) or bool(sx.sand(a.shape[d] == 1, self.shape[d + off] != 1)) else idx[d + off] for d in range(a.ndim))

    def at(self, idx):
        ts = []
        for a in self.args:
            if isinstance(a, AArr):
                ts.append(a.at(self._arg_idx(a, idx)))
            else:
                ts.append(("scalar", a if not isinstance(a, float) or a == a else "nan"))
        return ("fn", self.fname, tuple(ts))

    def sum_mult(self, rng, idx, q):
        total = 0
        for a in self.args:
            if not isinstance(a, AArr):
                continue
            off = self.ndim - a.ndim
            sub = {}
            factor = 1
            lidx = []
            for d in range(self.ndim):
                ad = d - off
                if ad < 0:
                    if d in rng:
                        factor = factor * rng[d][1]
                    continue
                bc = (isinstance(a.shape[ad], int) and a.shape[ad] == 1 and not (isinstance(self.shape[d], int) and self.shape[d] == 1)) or (
                    not isinstance(a.shape[ad], int) and bool(sx.sand(a.shape[ad] == 1, self.shape[d] != 1)))
                if d in rng:
                    if bc:
                        factor = factor * rng[d][1]
                        lidx.append(0)
                    else:
                        sub[ad] = rng[d]
                        lidx.append(None)
                else:
                    lidx.append(0 if bc else idx[d])
            total = total + factor * a.sum_mult(sub, tuple(lidx), q)
        return total


class Reduce(AArr):
    _owns = True
    _children = ('base',)
    def __init__(self, fname, base, axes, keepdims, dtype=None):
        self.fname = fname
        self.base = base
        self.axes = tuple(sorted(axes))
        self.keepdims = keepdims
        if keepdims:
            shape = tuple(1 if d in self.axes else s for d, s in enumerate(base.shape))
        else:
            shape = tuple(s for d, s in enumerate(base.shape) if d not in self.axes)
        if dtype is None:
            if fname in ("argmax", "argmin", "nanargmax", "nanargmin"):
                dtype = _np.dtype("int64")
            elif fname in ("any", "all"):
                dtype = _np.dtype(bool)
            elif fname in ("mean",) and _np.dtype(base.dtype).kind in "biu":
                dtype = _np.dtype("float64")
            elif fname in ("sum", "prod", "nansum", "nanprod") and _np.dtype(base.dtype).kind in "biu" and _np.dtype(base.dtype).itemsize < 8:
                dtype = _np.dtype("int64" if _np.dtype(base.dtype).kind in "bi" else "uint64")
        super().__init__(shape, dtype or base.dtype)

    def _base_idx(self, idx):
        if self.keepdims:
            return tuple(None if d in self.axes else idx[d] for d in range(self.base.ndim))
        it = iter(idx)
        return tuple(None if d in self.axes else next(it) for d in range(self.base.ndim))

    def _base_dim(self, d):
        if self.keepdims:
            return d
        kept = [b for b in range(self.base.ndim) if b not in self.axes]
        return kept[d]

    def at(self, idx):
        return ("red", self.fname, _Ref(self, tuple(idx)))

    def elem_mult(self, idx, q):
        rng = {a: _full_range(self.base.shape[a]) for a in self.axes}
        return self.base.sum_mult(rng, self._base_idx(idx), q)

    def sum_mult(self, rng, idx, q):
        brng = {a: _full_range(self.base.shape[a]) for a in self.axes}
        for d, r in rng.items():
            bd = self._base_dim(d)
            if bd in self.axes:
                # summing over a reduced (size-1) axis: count is 0 or 1
                if not (r[1] >= 1):
                    return 0
                continue
            brng[bd] = r
        bidx = list(self._base_idx(tuple(idx[d] if d not in rng else None for d in range(self.ndim))))
        return self.base.sum_mult(brng, tuple(bidx), q)


class _Ref:
    """a reduced element: compared by multiplicities, not structurally"""

    def __init__(self, node, idx):
        self.node = node
        self.idx = idx

    def mult(self, q):
        return self.node.elem_mult(self.idx, q)

    def __repr__(self):
        return f"<{self.node.fname} over {self.node.base!r} at {self.idx}>"


class Concat(AArr):
    _owns = True
    _children = ('parts',)
    def __init__(self, parts, axis):
        self.parts = list(parts)
        if not self.parts:
            raise ValueError("need at least one array to concatenate")
        nd = self.parts[0].ndim
        self.axis = _norm_axis(axis, nd)[0]
        for p in self.parts[1:]:
            if p.ndim != nd:
                raise ValueError("all the input arrays must have same number of dimensions")
            for d in range(nd):
                if d != self.axis and not (p.shape[d] == self.parts[0].shape[d]):
                    raise ValueError("all the input array dimensions except for the concatenation axis must match exactly")
        shape = list(self.parts[0].shape)
        tot = 0
        for p in self.parts:
            tot = tot + p.shape[self.axis]
        shape[self.axis] = tot
        super().__init__(shape, self.parts[0].dtype)

    def at(self, idx):
        off = 0
        a = self.axis
        for p in self.parts:
            n = p.shape[a]
            if idx[a] < off + n:
                return p.at(tuple(idx[d] - off if d == a else idx[d] for d in range(self.ndim)))
            off = off + n
        return ("uninit",)

    def sum_mult(self, rng, idx, q):
        a = self.axis
        total = 0
        off = 0
        for p in self.parts:
            n = p.shape[a]
            if a in rng:
                r = _clip_range(rng[a], off, n)
                if r is not None:
                    sub = dict(rng)
                    sub[a] = r
                    total = total + p.sum_mult(sub, idx, q)
            else:
                if sx.sand(idx[a] >= off, idx[a] < off + n):
                    lidx = tuple(idx[d] - off if d == a else idx[d] for d in range(self.ndim))
                    return p.sum_mult(rng, lidx, q)
            off = off + n
        return total


class Copy(AArr):
    """a fresh buffer holding the elements of `base` (numpy.take with a scalar index, .copy(), ascontiguousarray)"""

    _owns = True
    _children = ('base',)

    def __init__(self, base):
        self.base = base
        super().__init__(base.shape, base.dtype)

    def at(self, idx):
        return self.base.at(idx)

    def sum_mult(self, rng, idx, q):
        return self.base.sum_mult(rng, idx, q)

    def field(self, name):
        return Copy(self.base.field(name))


class BroadcastView(Elemwise):
    """numpy.broadcast_to returns a read-only VIEW: no buffer is allocated and the base stays alive"""

    _owns = False
    _children = ()


class View(AArr):
    """basic indexing / expand_dims / squeeze / permute / flip: out dim d reads base dim m[d] at start+step*i"""

    def __init__(self, base, dims, fixed, shape):
        # dims: per out dim: (base_dim or None, start, step); fixed: {base_dim: index}
        super().__init__(shape, base.dtype)
        self.base = base
        self.dims = list(dims)
        self.fixed = dict(fixed)

    def _bidx(self, idx):
        b = [None] * self.base.ndim
        for bd, v in self.fixed.items():
            b[bd] = v
        for d, (bd, start, step) in enumerate(self.dims):
            if bd is not None:
                b[bd] = None if idx[d] is None else start + step * idx[d]
        return tuple(b)

    def at(self, idx):
        return self.base.at(self._bidx(idx))

    def sum_mult(self, rng, idx, q):
        brng = {}
        for d, r in rng.items():
            bd, start, step = self.dims[d]
            if bd is None:
                if not (r[1] >= 1):
                    return 0
                continue
            first, count, stride = r
            if isinstance(step, int) and step < 0:
                # reversed traversal covers the same set: first' = start + step*(first+count-1)
                brng[bd] = (start + step * (first + (count - 1) * stride), count, -step * stride)
            else:
                brng[bd] = (start + step * first, count, stride * step)
        bidx = self._bidx(tuple(None if d in rng else idx[d] for d in range(self.ndim)))
        return self.base.sum_mult(brng, bidx, q)

    def field(self, name):
        return View(self.base.field(name), self.dims, self.fixed, self.shape)


class Gather(AArr):
    """advanced indexing with ONE concrete 1-d integer array along dimension `dim` (a copy): out[.., p, ..] = base[.., indices[p], ..]"""

    _owns = True
    _children = ('base',)

    def __init__(self, base, dim, indices):
        self.base = base
        self.dim = dim
        self.indices = [int(i) for i in indices]
        shape = tuple(len(self.indices) if d == dim else s for d, s in enumerate(base.shape))
        super().__init__(shape, base.dtype)

    def _lookup(self, p):
        if isinstance(p, int):
            return self.indices[p]
        r = self.indices[-1]
        for j in range(len(self.indices) - 2, -1, -1):
            r = sx.ite(p == j, self.indices[j], r)
        return r

    def at(self, idx):
        return self.base.at(tuple(self._lookup(i) if d == self.dim else i for d, i in enumerate(idx)))

    def sum_mult(self, rng, idx, q):
        if self.dim in rng:
            first, count, stride = rng[self.dim]
            total = 0
            sub = {d: r for d, r in rng.items() if d != self.dim}
            for j, src in enumerate(self.indices):
                inside = sx.sand(j >= first, j < first + count * stride, (j - first) % stride == 0) if not (isinstance(stride, int) and stride == 1) else sx.sand(j >= first, j < first + count)
                bidx = tuple(src if d == self.dim else i for d, i in enumerate(idx))
                total = total + sx.ite(inside, self.base.sum_mult(sub, bidx, q), 0)
            return total
        return self.base.sum_mult(rng, tuple(self._lookup(i) if d == self.dim else i for d, i in enumerate(idx)), q)


def make_slice(base, key):
    if not isinstance(key, tuple):
        key = (key,)
    arr_pos = [i for i, k in enumerate(key) if isinstance(k, (_np.ndarray, list))]
    if arr_pos:
        if len(arr_pos) > 1:
            raise Unsupported("more than one integer-array index on an abstract array")
        i = arr_pos[0]
        ind = _np.asarray(key[i])
        if ind.ndim != 1 or ind.dtype.kind not in "iu":
            raise Unsupported("integer-array index that is not a 1-d integer array")
        n_before = sum(1 for k in key[:i] if k is not None and not _isint(k))  # dimension of the result where the array index lands
        v = make_slice(base, key[:i] + (slice(None),) + key[i + 1:])
        nd = v.shape[n_before + sum(1 for k in key[:i] if k is None)]
        ind = [int(j) + (nd if int(j) < 0 else 0) for j in ind] if isinstance(nd, int) else [int(j) for j in ind]
        for j in ind:
            if j < 0 or not (j < nd):
                raise IndexError(f"index {j} is out of bounds for axis with size {nd}")
        return Gather(v, n_before + sum(1 for k in key[:i] if k is None), ind)
    # ellipsis
    if any(k is Ellipsis for k in key):
        i = [n for n, k in enumerate(key) if k is Ellipsis][0]
        nfill = base.ndim - sum(1 for k in key if k is not None and k is not Ellipsis)
        key = key[:i] + (slice(None),) * nfill + key[i + 1:]
    nsel = sum(1 for k in key if k is not None)
    key = tuple(key) + (slice(None),) * (base.ndim - nsel)
    dims = []
    fixed = {}
    shape = []
    bd = 0
    for k in key:
        if k is None:
            dims.append((None, 0, 1))
            shape.append(1)
            continue
        n = base.shape[bd]
        if isinstance(k, slice):
            step = 1 if k.step is None else k.step
            step = sx.conc(step)
            if step > 0:
                start = 0 if k.start is None else k.start
                stop = n if k.stop is None else k.stop
                if start < 0:
                    start = start + n
                    if start < 0:
                        start = 0
                elif start > n:
                    start = n
                if stop < 0:
                    stop = stop + n
                    if stop < 0:
                        stop = 0
                elif stop > n:
                    stop = n
                cnt = -((-(stop - start)) // step) if step != 1 else stop - start
                if cnt < 0:
                    cnt = 0
            else:
                raise Unsupported("negative-step slice of an abstract array")
            dims.append((bd, start, step))
            shape.append(cnt)
        elif _isint(k):
            i = k
            if i < 0:
                i = i + n
            if i < 0 or i >= n:
                raise IndexError(f"index {k} is out of bounds for axis {bd} with size {n}")
            fixed[bd] = i
        else:
            raise Unsupported(f"index of type {type(k).__name__} on an abstract array")
        bd += 1
    return View(base, dims, fixed, shape)


class Value(AArr):
    """an array whose elements are an integer function of their index (arange, eye, linspace positions)"""

    _owns = True

    def __init__(self, shape, dtype, fn, tag):
        self.fn = fn
        self.tag = tag
        super().__init__(shape, dtype)

    def at(self, idx):
        return ("val", self.tag, self.fn(tuple(idx)))

    def sum_mult(self, rng, idx, q):
        return 0


class Opaque(AArr):
    _owns = True
    _children = ('deps',)
    """result of a function whose routing is not modelled (qr, matmul ...): shape only"""

    def __init__(self, shape, dtype, tag, deps=()):
        self.tag = tag
        self.deps = tuple(deps)
        super().__init__(shape, dtype)

    def at(self, idx):
        return ("opaque", self.tag)


def matmul(a, b):
    a, b = _lift(a), _lift(b)
    if a.ndim < 1 or b.ndim < 1:
        raise ValueError("matmul: Input operand does not have enough dimensions")
    ka = a.shape[-1]
    kb = b.shape[-2] if b.ndim >= 2 else b.shape[0]
    if not (ka == kb):
        raise ValueError(f"matmul: Input operand 1 has a mismatch in its core dimension 0 (size {kb} is different from {ka})")
    if a.ndim == 1 and b.ndim == 1:
        shape = ()
    elif a.ndim == 1:
        shape = b.shape[:-2] + (b.shape[-1],)
    elif b.ndim == 1:
        shape = a.shape[:-1]
    else:
        shape = broadcast_shapes(a.shape[:-2], b.shape[:-2]) + (a.shape[-2], b.shape[-1])
    if not LEDGER.on and a.ndim >= 2 and b.ndim >= 2:
        # provenance: out[.., i, j] = sum_k a[.., i, k] * b[.., k, j]  (the ledger keeps the opaque node: matmul allocates only its result)
        a_ = make_slice(a, (Ellipsis, None))
        b_ = make_slice(b, (Ellipsis, None, slice(None), slice(None)))
        p = Elemwise("multiply", (a_, b_))
        return Reduce("sum", p, (p.ndim - 2,), False)
    return Opaque(shape, a.dtype, "matmul", (a, b))


def tensordot(a, b, axes=2):
    a, b = _lift(a), _lift(b)
    if _isint(axes):
        k = sx.conc(axes)
        a_ax = tuple(range(a.ndim - k, a.ndim))
        b_ax = tuple(range(0, k))
    else:
        a_ax, b_ax = axes
        a_ax = (a_ax,) if _isint(a_ax) else tuple(a_ax)
        b_ax = (b_ax,) if _isint(b_ax) else tuple(b_ax)
    a_ax = _norm_axis(a_ax, a.ndim)
    b_ax = _norm_axis(b_ax, b.ndim)
    if len(a_ax) != len(b_ax):
        raise ValueError("shape-mismatch for sum")
    for i, j in zip(a_ax, b_ax):
        if not (a.shape[i] == b.shape[j]):
            raise ValueError("shape-mismatch for sum")
    shape = tuple(s for d, s in enumerate(a.shape) if d not in a_ax) + tuple(s for d, s in enumerate(b.shape) if d not in b_ax)
    if not LEDGER.on and len(a_ax) >= 1:
        # provenance: out[i.., j..] = sum_{k..} a[i.., k..] * b[k.., j..] (contracted axes paired in the order given)
        a_free = [d for d in range(a.ndim) if d not in a_ax]
        b_free = [d for d in range(b.ndim) if d not in b_ax]
        pa = a_free + list(a_ax)
        pb = list(b_ax) + b_free
        a_p = View(a, [(d, 0, 1) for d in pa], {}, [a.shape[d] for d in pa])
        b_p = View(b, [(d, 0, 1) for d in pb], {}, [b.shape[d] for d in pb])
        a_ = make_slice(a_p, (Ellipsis,) + (None,) * len(b_free))
        b_ = make_slice(b_p, (None,) * len(a_free) + (Ellipsis,))
        prod = Elemwise("multiply", (a_, b_))
        return Reduce("sum", prod, tuple(range(len(a_free), len(a_free) + len(a_ax))), False)
    return Opaque(shape, a.dtype, "tensordot", (a, b))


class _Linalg:
    def qr(self, a, mode="reduced"):
        a = _lift(a)
        if a.ndim != 2:
            raise Unsupported("qr of a stack of matrices")
        m, n = a.shape
        k = m if m <= n else n
        return Opaque((m, k), a.dtype, "qr.Q", (a,)), Opaque((k, n), a.dtype, "qr.R", (a,))

    def svd(self, a, full_matrices=True):
        a = _lift(a)
        m, n = a.shape
        k = m if m <= n else n
        if full_matrices:
            return Opaque((m, m), a.dtype, "svd.U", (a,)), Opaque((k,), a.dtype, "svd.S", (a,)), Opaque((n, n), a.dtype, "svd.Vh", (a,))
        return Opaque((m, k), a.dtype, "svd.U", (a,)), Opaque((k,), a.dtype, "svd.S", (a,)), Opaque((k, n), a.dtype, "svd.Vh", (a,))

    def outer(self, a, b):
        a, b = _lift(a), _lift(b)
        if a.ndim != 1 or b.ndim != 1:
            raise ValueError("outer: inputs must be one-dimensional")
        return Elemwise("multiply", (make_slice(a, (slice(None), None)), make_slice(b, (None, slice(None)))))


class Repeat(AArr):
    _owns = True
    _children = ('base',)
    def __init__(self, base, repeats, axis):
        self.base = base
        self.repeats = repeats
        self.axis = _norm_axis(axis, base.ndim)[0]
        shape = list(base.shape)
        shape[self.axis] = shape[self.axis] * repeats
        super().__init__(shape, base.dtype)

    def at(self, idx):
        return self.base.at(tuple(idx[d] // self.repeats if d == self.axis else idx[d] for d in range(self.ndim)))

    def sum_mult(self, rng, idx, q):
        if self.axis in rng:
            raise Unsupported("sum over a repeated axis")
        lidx = tuple(None if idx[d] is None else (idx[d] // self.repeats if d == self.axis else idx[d]) for d in range(self.ndim))
        return self.base.sum_mult(rng, lidx, q)


class Reshape(AArr):
    def __init__(self, base, shape):
        shape = tuple(shape)
        if any(_isint(v) and not isinstance(v, SInt) and v == -1 for v in shape):
            # one unknown extent, as NumPy allows: size / product of the others (must divide)
            known = _prod([v for v in shape if not (not isinstance(v, SInt) and v == -1)])
            if len([v for v in shape if not isinstance(v, SInt) and v == -1]) != 1:
                raise ValueError("can only specify one unknown dimension")
            if len(shape) == 1:
                shape = (base.size,)
            else:
                q = base.size // known
                if not (q * known == base.size):
                    raise ValueError(f"cannot reshape array of size {base.size} into shape {shape}")
                shape = tuple(q if (not isinstance(v, SInt) and v == -1) else v for v in shape)
        if not (_prod(shape) == base.size):
            raise ValueError(f"cannot reshape array of size {base.size} into shape {shape}")
        super().__init__(shape, base.dtype)
        self.base = base

    def at(self, idx):
        lin = 0
        for d in range(self.ndim):
            lin = lin * self.shape[d] + idx[d]
        b = []
        for d in reversed(range(self.base.ndim)):
            n = self.base.shape[d]
            b.append(lin % n)
            lin = lin // n
        return self.base.at(tuple(reversed(b)))

    def sum_mult(self, rng, idx, q):
        # only whole-array sums (every axis summed over its full extent)
        if len(rng) == self.ndim and all(bool(sx.sand(r[0] == 0, r[1] == self.shape[d], r[2] == 1)) for d, r in rng.items()):
            return self.base.sum_mult({d: _full_range(self.base.shape[d]) for d in range(self.base.ndim)}, (None,) * self.base.ndim, q)
        raise Unsupported("partial sum over a reshaped array")


class Cum(AArr):
    _owns = True
    _children = ('base',)
    def __init__(self, fname, base, axis, include_initial):
        self.fname = fname
        self.base = base
        self.axis = _norm_axis(axis, base.ndim)[0]
        self.include_initial = bool(include_initial)
        shape = list(base.shape)
        if self.include_initial:
            shape[self.axis] = shape[self.axis] + 1
        super().__init__(shape, base.dtype)

    def at(self, idx):
        return ("red", self.fname, _CumRef(self, tuple(idx)))

    def elem_mult(self, idx, q):
        k = idx[self.axis]
        cnt = k if self.include_initial else k + 1
        rng = {self.axis: (0, cnt, 1)}
        return self.base.sum_mult(rng, tuple(None if d == self.axis else idx[d] for d in range(self.ndim)), q)


class _CumRef(_Ref):
    pass


# ---------------------------------------------------------------------------------------------
# term utilities
# ---------------------------------------------------------------------------------------------
def term_mult(t, q):
    """multiplicity of source element q in a term under sum-like (linear) semantics"""
    if isinstance(t, tuple) and t:
        if t[0] == "elem":
            if t[1] != q[0]:
                return 0
            return sx.ite(_eq_all(list(zip(t[2], q[1]))), 1, 0)
        if t[0] == "fn":
            tot = 0
            for a in t[2]:
                tot = tot + term_mult(a, q)
            return tot
        if t[0] == "red":
            return t[2].mult(q)
        if t[0] in ("const", "scalar"):
            return 0
        if t[0] == "uninit":
            raise sx.Violated("element-never-written")
    raise Unsupported(f"term {t!r}")


def terms_equal(a, b):
    conj = []

    def walk(x, y):
        if isinstance(x, tuple) and isinstance(y, tuple):
            if len(x) != len(y):
                return False
            return all(walk(i, j) for i, j in zip(x, y))
        if _isint(x) and _isint(y):
            conj.append(x == y)
            return True
        if isinstance(x, _Ref) or isinstance(y, _Ref):
            return x is y
        return x == y

    if not walk(a, b):
        return False
    return sx.sand(*conj) if conj else True


def has_uninit(t):
    if isinstance(t, tuple):
        if t and t[0] == "uninit":
            return True
        return any(has_uninit(x) for x in t)
    return False


# ---------------------------------------------------------------------------------------------
# the namespace
# ---------------------------------------------------------------------------------------------
def broadcast_shapes(*shapes):
    nd = max((len(s) for s in shapes), default=0)
    out = []
    for d in range(nd):
        cur = 1
        for s in shapes:
            k = d - (nd - len(s))
            if k < 0:
                continue
            v = s[k]
            if isinstance(v, int) and v == 1:
                continue
            if isinstance(cur, int) and cur == 1:
                cur = v
                continue
            if v == cur:
                continue
            if v == 1:
                continue
            if cur == 1:
                cur = v
                continue
            raise ValueError(f"shape mismatch: objects cannot be broadcast to a single shape: {shapes}")
        out.append(cur)
    return tuple(out)


ELEMENTWISE = {
    "abs", "acos", "acosh", "add", "asin", "asinh", "atan", "atan2", "atanh", "bitwise_and", "bitwise_invert",
    "bitwise_left_shift", "bitwise_or", "bitwise_right_shift", "bitwise_xor", "ceil", "clip", "conj", "copysign", "cos",
    "cosh", "divide", "equal", "exp", "expm1", "floor", "floor_divide", "greater", "greater_equal", "hypot", "imag",
    "isfinite", "isinf", "isnan", "less", "less_equal", "log", "log1p", "log2", "log10", "logaddexp", "logical_and",
    "logical_not", "logical_or", "logical_xor", "maximum", "minimum", "multiply", "negative", "nextafter", "not_equal",
    "positive", "pow", "real", "reciprocal", "remainder", "round", "sign", "signbit", "sin", "sinh", "sqrt", "square",
    "subtract", "tan", "tanh", "trunc", "where", "astype",
}
REDUCTIONS = {"sum", "prod", "max", "min", "mean", "any", "all", "nansum", "nanmax", "nanmin", "nanprod", "argmax", "argmin", "nanargmax", "nanargmin"}


def _lift(a):
    if isinstance(a, AArr):
        return a
    if isinstance(a, _np.ndarray):
        return Const(a.shape, a.dtype, "numpy")
    raise Unsupported(f"non-abstract array of type {type(a).__name__}")


class Namespace:
    """delegates dtypes / constants / info to the real namespace; array functions are abstract"""

    def __init__(self, real):
        object.__setattr__(self, "_real", real)
        object.__setattr__(self, "linalg", _Linalg())
        object.__setattr__(self, "newaxis", None)

    def matmul(self, a, b):
        return matmul(a, b)

    def tensordot(self, a, b, axes=2):
        return tensordot(a, b, axes)

    def __reduce__(self):
        # cloudpickle reaches the namespace through the globals of block functions: ship it by reference to the real namespace
        return (Namespace, (self._real,))

    def __getattr__(self, name):
        if name == "_real" or (name.startswith("__") and name.endswith("__") and "_real" not in self.__dict__):
            raise AttributeError(name)  # half-constructed object (unpickling): no delegation yet
        if name in ELEMENTWISE:
            def f(*args, **kw):
                if not any(isinstance(a, AArr) for a in args):
                    return getattr(self._real, name)(*args, **kw)
                return Elemwise(name, args, **{k: v for k, v in kw.items() if k == "dtype"})
            f.__name__ = name
            return f
        if name in REDUCTIONS:
            def r(x, axis=None, keepdims=False, dtype=None, **kw):
                if not isinstance(x, AArr):
                    return getattr(self._real, name)(x, axis=axis, keepdims=keepdims, **({"dtype": dtype} if dtype is not None else {}), **kw)
                return Reduce(name, x, _norm_axis(axis, x.ndim), keepdims, dtype)
            r.__name__ = name
            return r
        return getattr(self._real, name)

    # creation
    def empty(self, shape, dtype=None, **kw):
        shape = (shape,) if _isint(shape) else tuple(shape)
        return Assembled(shape, dtype or _np.float64)

    def full(self, shape, fill_value=None, dtype=None, **kw):
        shape = (shape,) if _isint(shape) else tuple(shape)
        return Const(shape, dtype or _np.float64, "full", fill_value)

    def zeros(self, shape, dtype=None, **kw):
        return self.full(shape, 0, dtype)

    def ones(self, shape, dtype=None, **kw):
        return self.full(shape, 1, dtype)

    def asarray(self, obj, dtype=None, **kw):
        if isinstance(obj, AArr):
            return obj
        if _isint(obj) and isinstance(obj, SInt):
            return Const((), dtype or _np.int64, "value", obj)
        return self._real.asarray(obj, dtype=dtype, **kw)

    def broadcast_shapes(self, *shapes):
        return broadcast_shapes(*shapes)

    def arange(self, start, stop=None, step=1, dtype=None, **kw):
        if stop is None:
            start, stop = 0, start
        if step == 0:
            raise ZeroDivisionError("arange with step 0")
        n = -((-(stop - start)) // step)
        if n < 0:
            n = 0
        return Value((n,), dtype or _np.int64, lambda idx, start=start, step=step: start + idx[0] * step, "arange")

    def eye(self, n_rows, n_cols=None, k=0, dtype=None, **kw):
        n_cols = n_rows if n_cols is None else n_cols
        return Value((n_rows, n_cols), dtype or _np.float64, lambda idx, k=k: sx.ite(idx[1] - idx[0] == k, 1, 0), "eye")

    def full_like(self, x, fill_value, dtype=None, **kw):
        if not isinstance(x, AArr):
            return self._real.full_like(x, fill_value, dtype=dtype)
        shape = kw.get("shape")
        shape = x.shape if shape is None else ((shape,) if _isint(shape) else tuple(shape))
        return Const(shape, dtype or x.dtype, "full", fill_value)

    def zeros_like(self, x, dtype=None, **kw):
        if not isinstance(x, AArr):
            return self._real.zeros_like(x, dtype=dtype)
        return Value(x.shape, dtype or x.dtype, lambda idx: 0, "eye")

    def broadcast_to(self, x, shape):
        shape = tuple(shape)
        if not isinstance(x, AArr):
            return Const(shape, getattr(x, "dtype", _np.float64), "broadcast", None)
        bs = broadcast_shapes(x.shape, shape)
        if len(bs) != len(shape) or not all(bool(a == b) for a, b in zip(bs, shape)):
            raise ValueError(f"cannot broadcast shape {x.shape} to {shape}")
        return BroadcastView("broadcast_to", (x, Const(shape, x.dtype, "template")))

    # manipulation
    def concat(self, arrays, axis=0, **kw):
        arrays = [_lift(a) for a in arrays]
        return Concat(arrays, axis)

    def expand_dims(self, x, axis=0):
        if not isinstance(x, AArr):
            return self._real.expand_dims(x, axis=axis)
        axes = (axis,) if _isint(axis) else tuple(axis)
        nd = x.ndim + len(axes)
        axes = _norm_axis(axes, nd)
        dims = []
        shape = []
        it = iter(range(x.ndim))
        for d in range(nd):
            if d in axes:
                dims.append((None, 0, 1))
                shape.append(1)
            else:
                b = next(it)
                dims.append((b, 0, 1))
                shape.append(x.shape[b])
        return View(x, dims, {}, shape)

    def squeeze(self, x, axis=None):
        axes = _norm_axis(axis, x.ndim)
        for a in axes:
            if not (x.shape[a] == 1):
                raise ValueError("cannot select an axis to squeeze out which has size not equal to one")
        dims = [(d, 0, 1) for d in range(x.ndim) if d not in axes]
        shape = [x.shape[d] for d in range(x.ndim) if d not in axes]
        return View(x, dims, {a: 0 for a in axes}, shape)

    def permute_dims(self, x, axes):
        axes = tuple(sx.conc(a) for a in axes)
        if sorted(axes) != list(range(x.ndim)):
            raise ValueError("axes don't match array")
        return View(x, [(a, 0, 1) for a in axes], {}, [x.shape[a] for a in axes])

    def flip(self, x, axis=None):
        axes = _norm_axis(axis, x.ndim)
        dims = [((d, x.shape[d] - 1, -1) if d in axes else (d, 0, 1)) for d in range(x.ndim)]
        return View(x, dims, {}, x.shape)

    def reshape(self, x, shape, **kw):
        shape = tuple(shape)
        if not isinstance(x, AArr):
            return self._real.reshape(x, shape)
        # pure insertion/removal of size-1 axes is a view
        return Reshape(x, shape)

    def repeat(self, x, repeats, axis=None):
        if axis is None:
            raise Unsupported("repeat with axis=None")
        return Repeat(x, repeats, axis)

    def unstack(self, x, axis=0):
        a = _norm_axis(axis, x.ndim)[0]
        n = sx.conc(x.shape[a])
        key = [slice(None)] * x.ndim
        out = []
        for i in range(n):
            key[a] = i
            out.append(make_slice(x, tuple(key)))
        return tuple(out)

    def stack(self, arrays, axis=0):
        return Concat([self.expand_dims(a, axis=axis) for a in arrays], axis)

    def cumulative_sum(self, x, axis=None, dtype=None, include_initial=False):
        if axis is None:
            if x.ndim != 1:
                raise ValueError("axis must be specified in cumulative_sum for more than one dimension")
            axis = 0
        return Cum("cumulative_sum", x, axis, include_initial)

    def cumulative_prod(self, x, axis=None, dtype=None, include_initial=False):
        if axis is None:
            axis = 0
        return Cum("cumulative_prod", x, axis, include_initial)

    def take(self, x, indices, axis=None, **kw):
        if not isinstance(x, AArr):
            return self._real.take(x, indices, axis=axis, **kw)
        if not _isint(indices):
            raise Unsupported("take with a non-scalar index on an abstract array")
        if axis is None:
            if x.ndim != 1:
                raise Unsupported("take without axis on an abstract array of more than one dimension")
            axis = 0
        axis = axis if axis >= 0 else axis + x.ndim
        return Copy(make_slice(x, (slice(None),) * axis + (indices,)))

    def diff(self, x, axis=-1, n=1, prepend=None, append=None):
        if not isinstance(x, AArr):
            return self._real.diff(x, axis=axis, n=n)
        if prepend is not None or append is not None:
            raise Unsupported("diff with prepend/append on an abstract array")
        axis = axis if axis >= 0 else axis + x.ndim
        for _ in range(sx.conc(n)):
            if not (x.shape[axis] >= 1):
                raise ValueError("diff requires input that is at least one dimensional")
            hi = make_slice(x, (slice(None),) * axis + (slice(1, None),))
            lo = make_slice(x, (slice(None),) * axis + (slice(None, -1),))
            x = Elemwise("subtract", (hi, lo))
        return x

    def vecdot(self, a, b, axis=-1):
        a, b = _lift(a), _lift(b)
        prod_ = Elemwise("multiply", (a, b))
        return Reduce("sum", prod_, _norm_axis(axis, prod_.ndim), False)

    def isin(self, element, test_elements, **kw):
        """shape transfer only: a bool array of element's shape (its values depend on NumPy's comparison of the values)"""
        if not isinstance(element, AArr) and not isinstance(test_elements, AArr):
            return self._real.isin(element, test_elements, **kw)
        element = _lift(element)
        return Opaque(element.shape, _np.dtype(bool), "isin", (element, _lift(test_elements)))

    def searchsorted(self, x1, x2, side="left", sorter=None):
        """shape transfer only: insertion indices have x2's shape and the index dtype"""
        if not isinstance(x1, AArr) and not isinstance(x2, AArr):
            return self._real.searchsorted(x1, x2, side=side, sorter=sorter)
        x1, x2 = _lift(x1), _lift(x2)
        if x1.ndim != 1:
            raise ValueError("object too deep for desired array")
        return Opaque(x2.shape, _np.dtype("int64"), "searchsorted", (x1, x2))

    def take_along_axis(self, x, indices, axis=-1):
        x, indices = _lift(x), _lift(indices)
        return Opaque(indices.shape, x.dtype, "take_along_axis", (x, indices))

    def astype(self, x, dtype, copy=True, **kw):
        if not isinstance(x, AArr):
            return self._real.astype(x, dtype, copy=copy)
        return Elemwise("astype", (x,), dtype=dtype)


def _calibrate_elision():
    """reference counts seen inside _bin for an UNNAMED operand (a temporary), learnt from `P() + named` and `named + P()`; a named
    operand shows one more.  Disabled (no elision: the ledger then over-counts chained expressions) if the two do not differ by 1."""
    class P(AArr):
        pass

    named = P((), _np.float64)
    named2 = P((), _np.float64)
    _CAL["on"], _CAL["seen"] = True, []
    try:
        named + named2
        P((), _np.float64) + named
        named + P((), _np.float64)
    finally:
        _CAL["on"] = False
    (n_self, n_other), (t_self, _), (_, t_other) = _CAL["seen"]
    if t_self == n_self - 1 and t_other == n_other - 1:
        _TEMP_RC["self"], _TEMP_RC["other"] = t_self, t_other
    return dict(_TEMP_RC)


_calibrate_elision()


def validate():
    """shape-transfer and routing of every modelled function against real NumPy on small concrete shapes"""
    import itertools

    import numpy as np

    ns = Namespace(np)
    cases = 0

    def conc_eval(a, data):
        out = np.empty(tuple(int(s) for s in a.shape), dtype=object)
        for idx in itertools.product(*[range(int(s)) for s in a.shape]):
            out[idx] = a.at(idx)
        return out

    def ref_terms(name, arr):
        out = np.empty(arr.shape, dtype=object)
        for idx in itertools.product(*[range(s) for s in arr.shape]):
            out[idx] = ("elem", name, tuple(int(v) for v in np.unravel_index(arr[idx], SHAPE)))
        return out

    for SHAPE in [(1,), (3,), (2, 3), (3, 1), (2, 1, 2)]:
        n = int(np.prod(SHAPE))
        ids = np.arange(n).reshape(SHAPE)  # element ids: lets NumPy itself compute the routing
        x = Src("x", (0,) * len(SHAPE), SHAPE, np.float64)
        nd = len(SHAPE)
        fns = []
        for ax in range(nd):
            fns.append((lambda a, ax=ax: ns.flip(a, axis=ax), lambda a, ax=ax: np.flip(a, axis=ax)))
            fns.append((lambda a, ax=ax: ns.expand_dims(a, axis=ax), lambda a, ax=ax: np.expand_dims(a, axis=ax)))
            fns.append((lambda a, ax=ax: ns.repeat(a, 2, axis=ax), lambda a, ax=ax: np.repeat(a, 2, axis=ax)))
            fns.append((lambda a, ax=ax: ns.concat([a, a], axis=ax), lambda a, ax=ax: np.concatenate([a, a], axis=ax)))
            fns.append((lambda a, ax=ax: ns.stack([a, a], axis=ax), lambda a, ax=ax: np.stack([a, a], axis=ax)))
            if SHAPE[ax] == 1:
                fns.append((lambda a, ax=ax: ns.squeeze(a, axis=ax), lambda a, ax=ax: np.squeeze(a, axis=ax)))
            for u in range(SHAPE[ax]):
                fns.append((lambda a, ax=ax, u=u: ns.unstack(a, axis=ax)[u], lambda a, ax=ax, u=u: np.moveaxis(a, ax, 0)[u]))
        fns.append((lambda a: ns.permute_dims(a, tuple(reversed(range(nd)))), lambda a: np.transpose(a)))
        fns.append((lambda a: ns.reshape(a, (n,)), lambda a: np.reshape(a, (n,))))
        fns.append((lambda a: ns.reshape(a, (1, n)), lambda a: np.reshape(a, (1, n))))
        fns.append((lambda a: a[tuple(slice(0, None, 2) for _ in range(nd))], lambda a: a[tuple(slice(0, None, 2) for _ in range(nd))]))
        fns.append((lambda a: a[(slice(1, None),) + (slice(None),) * (nd - 1)], lambda a: a[(slice(1, None),) + (slice(None),) * (nd - 1)]))
        fns.append((lambda a: a[(0,) + (slice(None),) * (nd - 1)], lambda a: a[(0,) + (slice(None),) * (nd - 1)]))
        fns.append((lambda a: a[(None,) + (slice(None),) * nd], lambda a: a[(None,) + (slice(None),) * nd]))
        for mine, real in fns:
            got = mine(x)
            want = real(ids)
            assert tuple(int(s) for s in got.shape) == want.shape, (SHAPE, got.shape, want.shape)
            g = conc_eval(got, None)
            w = ref_terms("x", want)
            assert (g == w).all(), (SHAPE, g, w)
            cases += 1
        # reductions: shape + multiplicities
        for ax in list(range(nd)) + [None]:
            for kd in (True, False):
                r = ns.sum(x, axis=ax, keepdims=kd)
                want = np.sum(ids, axis=ax, keepdims=kd)
                assert tuple(int(s) for s in r.shape) == want.shape
                for idx in itertools.product(*[range(int(s)) for s in r.shape]):
                    t = r.at(idx)
                    for j in itertools.product(*[range(s) for s in SHAPE]):
                        m = term_mult(t, ("x", j))
                        # reference: does element j fall into the slab reduced into idx?
                        slab = np.zeros(SHAPE, dtype=int)
                        slab[j] = 1
                        ref = np.sum(slab, axis=ax, keepdims=kd)[idx]
                        assert int(m) == int(ref), (SHAPE, ax, kd, idx, j, m, ref)
                cases += 1
        # cumulative sum
        for ax in range(nd):
            for ii in (False, True):
                c = ns.cumulative_sum(x, axis=ax, include_initial=ii)
                want_shape = list(SHAPE)
                want_shape[ax] += int(ii)
                assert tuple(int(s) for s in c.shape) == tuple(want_shape)
                for idx in itertools.product(*[range(int(s)) for s in c.shape]):
                    for j in itertools.product(*[range(s) for s in SHAPE]):
                        slab = np.zeros(SHAPE)
                        slab[j] = 1
                        ref = np.cumulative_sum(slab, axis=ax, include_initial=ii)[idx]
                        assert int(term_mult(c.at(idx), ("x", j))) == int(ref)
                cases += 1
        # elementwise broadcasting
        y = Src("y", (0,), (SHAPE[-1],), np.float64)
        e = ns.add(x, y)
        assert tuple(int(s) for s in e.shape) == np.broadcast_shapes(SHAPE, (SHAPE[-1],))
        for idx in itertools.product(*[range(int(s)) for s in e.shape]):
            assert e.at(idx) == ("fn", "add", (("elem", "x", idx), ("elem", "y", (idx[-1],))))
        cases += 1
        # assembled
        a = ns.empty(SHAPE)
        half = SHAPE[0] // 2
        if half:
            a[(slice(0, half),)] = x[(slice(0, half),)]
            a[(slice(half, SHAPE[0]),)] = x[(slice(half, SHAPE[0]),)]
            assert (conc_eval(a, None) == ref_terms("x", ids)).all()
            cases += 1
    # tensordot: multiplicity of every a / b element in every output element against NumPy on one-hot operands
    for (sa, sb, axes) in [((2, 3), (3, 2), 1), ((2, 3, 2), (3, 2, 2), ((1, 2), (0, 1))), ((2, 3, 2), (2, 3, 2), ((2, 1), (0, 1))), ((3,), (3, 2), 1), ((2, 2), (2, 2), ((0,), (1,)))]:
        a = Src("a", (0,) * len(sa), sa, np.float64)
        b = Src("b", (0,) * len(sb), sb, np.float64)
        r = tensordot(a, b, axes=axes)
        want = np.tensordot(np.ones(sa), np.ones(sb), axes=axes)
        assert tuple(int(v) for v in r.shape) == want.shape, (sa, sb, axes, r.shape, want.shape)
        for idx in itertools.product(*[range(int(v)) for v in r.shape]):
            t = r.at(idx)
            for j in itertools.product(*[range(v) for v in sa]):
                oh = np.zeros(sa)
                oh[j] = 1
                assert int(term_mult(t, ("a", j))) == int(np.tensordot(oh, np.ones(sb), axes=axes)[idx]), (sa, sb, axes, idx, j)
            for j in itertools.product(*[range(v) for v in sb]):
                oh = np.zeros(sb)
                oh[j] = 1
                assert int(term_mult(t, ("b", j))) == int(np.tensordot(np.ones(sa), oh, axes=axes)[idx]), (sa, sb, axes, idx, j)
        cases += 1
    return cases
