"""CrossHair contracts for cubed.utils.convert_to_bytes on symbolic strings (C18 i)."""
from fractions import Fraction

from cubed.utils import convert_to_bytes

UNITS = {"kB": 1, "MB": 2, "GB": 3, "TB": 4, "PB": 5}


def exact_value(s: str):
    """exact decimal meaning of '<number>[B|kB|MB|...]' (spaces ignored); None if it is not such a literal"""
    t = s.replace(" ", "")
    num, k = None, 0
    for cand, kk in [(t, 0)] + ([(t[:-1], 0)] if t.endswith("B") else []) + [(t[:-2], UNITS[t[-2:]]) for _ in [0] if t[-2:] in UNITS]:
        try:
            float(cand)
        except ValueError:
            continue
        num, k = cand, kk
        break
    if num is None:
        return None
    try:
        return Fraction(num) * 1000**k
    except (ValueError, ZeroDivisionError):
        return None  # inf / nan literals


def check_string_literal(s: str) -> bool:
    """
    pre: len(s) <= 4
    post: _
    """
    try:
        v = convert_to_bytes(s)
    except (ValueError, IndexError):
        return True
    ex = exact_value(s)
    return ex is not None and ex.denominator == 1 and ex >= 0 and v == ex and isinstance(v, int)


def check_int(n: int) -> bool:
    """
    post: _
    """
    try:
        v = convert_to_bytes(n)
    except ValueError:
        return n < 0
    return n >= 0 and v == n
