"""./check <ID> --tier quick|thorough | --replay <path>

Runs the property's obligations in parallel worker processes, applies known findings, replays
counterexamples, writes /verif/evidence/<ID>.json and prints the verdict lines.

exit 0  held on everything explored (possibly KNOWN-FINDING / INCONCLUSIVE lines)
exit 1  VIOLATION property=<id> replay=<path>
exit 3  HARNESS-ERROR (a check that cannot be trusted; never a verdict)
"""
from __future__ import annotations

import argparse
import concurrent.futures as cf
import importlib
import json
import os
import subprocess
import sys
import time

ROOT = os.path.dirname(os.path.dirname(os.path.abspath(__file__)))
MARK = "@@RESULT@@"
PY = sys.executable


def _env():
    env = dict(os.environ)
    env["PYTHONPATH"] = ROOT + os.pathsep + env.get("PYTHONPATH", "")
    env["PYTHONHASHSEED"] = "0"
    env.setdefault("OMP_NUM_THREADS", "1")
    return env


def _run_worker(args, timeout):
    t0 = time.time()
    try:
        p = subprocess.run(
            [PY, "-m", "engine.worker", *args], cwd=ROOT, env=_env(), capture_output=True, text=True, timeout=timeout
        )
    except subprocess.TimeoutExpired:
        return {"verdict": "inconclusive", "inconclusive": ["worker killed at wall cap"], "wall_s": round(time.time() - t0, 1)}
    for line in reversed(p.stdout.splitlines()):
        if line.startswith(MARK):
            r = json.loads(line[len(MARK):])
            r.setdefault("wall_s", round(time.time() - t0, 2))
            return r
    return {
        "verdict": "harness-error",
        "error": "worker produced no result",
        "stderr": p.stderr[-3000:],
        "stdout": p.stdout[-1000:],
    }


def load_known(prop):
    path = os.path.join(ROOT, "known_findings.json")
    if not os.path.exists(path):
        return []
    data = json.load(open(path))
    return [k for k in data.get("known", []) if k["property"] == prop]


def prop_title(prop):
    for line in open(os.path.join(ROOT, "properties.jsonl")):
        p = json.loads(line)
        if p["id"] == prop:
            return p.get("title", "")
    return ""


def do_replay(path):
    rec = json.load(open(path))
    prop, obl, tier, model = rec["property"], rec["obligation"], rec.get("tier", "quick"), rec["model"]
    print(f"replaying {prop}/{obl} model={model}")
    # 1. the harness itself, concretely, through the engine-free path: run obligation restricted to this model
    r = _run_worker(["run1", prop, obl, tier, json.dumps(model)], 600)
    print("harness (concrete ints, no engine):", json.dumps(r)[:1500])
    # 2. public API scenario if there is one
    r2 = _run_worker(["replay", prop, obl, tier, json.dumps(model)], 900)
    print("public API:", json.dumps(r2)[:1500])
    reproduced = r.get("outcome", [None])[0] in ("violated", "raised") or r2.get("reproduced") is True
    if reproduced:
        print(f"VIOLATION property={prop} replay={path}")
        return 1
    print("not reproduced")
    return 0


def main(argv=None):
    ap = argparse.ArgumentParser()
    ap.add_argument("prop")
    ap.add_argument("--tier", default=os.environ.get("VERIF_TIER", "quick"), choices=["quick", "thorough"])
    ap.add_argument("--replay")
    ap.add_argument("--only", help="run only obligations whose name contains this")
    ap.add_argument("--jobs", type=int, default=int(os.environ.get("VERIF_JOBS", "16")))
    ap.add_argument("--total-wall", type=int, default=int(os.environ.get("VERIF_TOTAL_WALL", "0") or 0),
                    help="stop STARTING obligations after this many seconds (0: 3300 s in the thorough tier, unlimited in quick); the ones not started are reported inconclusive")
    ap.add_argument("-v", action="store_true")
    a = ap.parse_args(argv)
    prop = a.prop.upper()
    if a.replay:
        return do_replay(a.replay)
    seed = int(os.environ.get("VERIF_SEED", "0") or 0)
    t0 = time.time()
    sys.path.insert(0, ROOT)
    mod = importlib.import_module(f"harness.{prop.lower()}")
    obls = mod.obligations(a.tier)
    if a.only:
        obls = [o for o in obls if a.only in o.name]
    known = load_known(prop)
    results = {}

    total_wall = a.total_wall or (3300 if a.tier == "thorough" else 0)

    def job(o):
        kl = [k["signature"] for k in known if k["obligation"] in (o.name, "*")]
        if total_wall and time.time() - t0 > total_wall:
            return o.name, {"verdict": "inconclusive", "inconclusive": [f"not started: the check's total wall budget of {total_wall} s was used up by earlier obligations"],
                            "paths": 0, "queries": 0, "solver_s": 0, "wall_s": 0, "obligation": o.name}
        return o.name, _run_worker(["run", prop, o.name, a.tier, str(seed), json.dumps(kl)], o.wall_s + 60)

    with cf.ThreadPoolExecutor(max_workers=max(1, a.jobs)) as ex:
        for name, r in ex.map(job, obls):
            results[name] = r
            if a.v:
                print(f"  [{r.get('verdict')}] {name} paths={r.get('paths')} q={r.get('queries')} "
                      f"solver={r.get('solver_s')}s wall={r.get('wall_s')}s {r.get('outcomes', '')} {r.get('inconclusive', '')}")
                if r.get("verdict") == "harness-error":
                    print("     ", r.get("error"), r.get("harness_errors"), (r.get("traceback") or "")[-1500:], (r.get("stderr") or "")[-1500:])

    # ---- interpret ----
    violations = []
    harness_errors = []
    inconclusive = []
    known_lines = []
    discharged = 0
    n_obl = 0
    twins_ok = 0
    twins = 0
    os.makedirs(os.path.join(ROOT, "replay", prop), exist_ok=True)
    for o in obls:
        r = results[o.name]
        v = r.get("verdict")
        if o.twin_of is not None:
            twins += 1
            if v == "violated":
                twins_ok += 1
            else:
                harness_errors.append(f"{o.name}: reachability twin of {o.twin_of} came back {v} (vacuous harness?)")
            continue
        n_obl += 1
        for label, hit in (r.get("known_hits") or {}).items():
            for k in known:
                if k["signature"] == label and k["obligation"] in (o.name, "*"):
                    line = f"KNOWN-FINDING: property={prop} {k['what']} [obligation={o.name} signature={label} e.g. {json.dumps(hit['example']['model'])}; {hit['count']} path(s)]"
                    known_lines.append(line)
        if v == "holds":
            discharged += 1
        elif v == "violated":
            for i, c in enumerate(r["counterexamples"]):
                safe = "".join(ch if (ch.isalnum() or ch in "-_.[],=") else "_" for ch in o.name)
                path = os.path.join(ROOT, "replay", prop, f"{safe}-{i}.json")
                rec = {"property": prop, "obligation": o.name, "tier": a.tier, "model": c["model"], "label": c["label"], "detail": c.get("detail")}
                if o.public_replay is not None:
                    rr = _run_worker(["replay", prop, o.name, a.tier, json.dumps(c["model"])], 900)
                    rec["public_replay"] = rr
                    if rr.get("reproduced") is False:
                        harness_errors.append(f"{o.name}: counterexample {c['model']} ({c['label']}) does not reproduce through the public API: {rr.get('message')}")
                        json.dump(rec, open(path, "w"), indent=1)
                        continue
                    if rr.get("verdict") == "harness-error":
                        harness_errors.append(f"{o.name}: public replay crashed: {rr.get('error')}")
                        continue
                json.dump(rec, open(path, "w"), indent=1)
                violations.append((o.name, c, path))
        elif v == "inconclusive":
            inconclusive.append(f"{o.name}: {r.get('inconclusive')}")
        else:
            harness_errors.append(f"{o.name}: {r.get('error') or r.get('harness_errors') or v}")

    # ---- evidence ----
    evaluations = sum(r.get("paths", 0) or 0 for r in results.values())
    nontrivial = sum(r.get("distinct_nontrivial", 0) or 0 for r in results.values())
    samples = []
    for o in obls:
        r = results[o.name]
        for s_ in (r.get("samples") or [])[:2]:
            samples.append({"obligation": o.name, **s_})
    per = []
    fn_set = {}
    stubs = set()
    assumptions = set()
    for o in obls:
        r = results[o.name]
        for f in r.get("functions", []) or []:
            fn_set[f["qualname"]] = f["sha256_16"]
        stubs.update(r.get("stubs", []) or [])
        assumptions.update(r.get("assumptions", []) or [])
        per.append({
            "obligation": o.name, "engine": r.get("engine"), "verdict": r.get("verdict"), "paths": r.get("paths"),
            "queries": r.get("queries"), "solver_s": r.get("solver_s"), "wall_s": r.get("wall_s"),
            "reached_assert": r.get("reached"), "outcomes": r.get("outcomes"), "bounds": r.get("bounds"),
            "outside_claim": r.get("outside_claim"), "vars": r.get("vars"), "twin_of": r.get("twin_of"),
            "inconclusive": r.get("inconclusive"), "known_hits": {k: v["count"] for k, v in (r.get("known_hits") or {}).items()},
            "counterexamples": (r.get("counterexamples") or [])[:3], "extra": r.get("extra"),
        })
    ev = {
        "property_id": prop,
        "tier": a.tier,
        "seed": seed,
        "level": "other",
        "coverage": {
            "explanation": getattr(mod, "EXPLANATION", "") or (
                "bounded symbolic execution of the real cubed functions with z3: each obligation is decided for all "
                "values of its symbolic variables within the stated bounds (verdict 'holds' = every path explored, the "
                "negated assertion unsat on each; every path re-validated by a concrete re-run)"),
            "obligations": n_obl,
            "discharged": discharged,
            "vacuity_twins": twins,
            "vacuity_twins_violated_as_expected": twins_ok,
            "evaluations": max(evaluations, 1),
            "distinct_nontrivial": nontrivial,
            "rule": "evaluations = symbolic paths explored (each = one equivalence class of inputs decided by z3); "
                    "distinct_nontrivial = distinct path models satisfying the harness's non-triviality rule "
                    "(>=2 blocks / >=1 failure or backup / etc., see harness) that ended in a non-violating outcome",
            "samples": samples[:12] or [{"note": "no sample"}],
            "exhaustive": discharged == n_obl and not inconclusive,
            "checker_cmd": f"./check {prop} --tier {a.tier}",
            "trusted_base": getattr(mod, "TRUSTED_BASE", []) + [
                "z3 (python wheel)", "engine/sx.py (own engine; every path re-validated concretely)",
                "CPython 3.12 semantics of executed bytecode", "engine/loader.py AST rewrites (logging removal, global substitution)"],
            "functions_encoded": [{"qualname": k, "sha256_16": v} for k, v in sorted(fn_set.items())],
            "queries_discharged": sum(r.get("queries", 0) or 0 for r in results.values()),
            "solver_s": round(sum(r.get("solver_s", 0) or 0 for r in results.values()), 2),
            "stubs": sorted(stubs),
            "per_obligation": per,
            "inconclusive": inconclusive,
            "known_findings_hit": known_lines,
            "harness_errors": harness_errors,
        },
        "assumptions": sorted(assumptions) + list(getattr(mod, "ASSUMPTIONS", [])),
        "wall_s": round(time.time() - t0, 2),
        "violations": len(violations),
    }
    os.makedirs(os.path.join(ROOT, "evidence"), exist_ok=True)
    json.dump(ev, open(os.path.join(ROOT, "evidence", f"{prop}.json"), "w"), indent=1, default=str)

    # ---- report ----
    print(f"{prop} [{a.tier}] {prop_title(prop)}")
    print(f"  obligations={n_obl} discharged={discharged} twins={twins_ok}/{twins} paths={evaluations} "
          f"queries={ev['coverage']['queries_discharged']} solver_s={ev['coverage']['solver_s']} wall_s={ev['wall_s']}")
    seen_what = {k["what"] for k in known if any(k["what"] in l for l in known_lines)}
    for w in sorted({k["what"] for k in known} - seen_what):
        print(f"note: listed finding not reproduced in this tier: property={prop} {w}")
    for line in sorted(set(known_lines)):
        print(line)
    for i in inconclusive:
        print(f"INCONCLUSIVE property={prop} {i}")
    for name, c, path in violations:
        print(f"  counterexample {name}: {c['label']} model={c['model']} detail={c.get('detail')}")
        print(f"VIOLATION property={prop} replay={path}")
    if harness_errors:
        for h in harness_errors:
            print(f"HARNESS-ERROR property={prop} {h}")
    if violations:
        return 1
    if harness_errors:
        return 3
    return 0


if __name__ == "__main__":
    try:
        rc = main()
    except SystemExit:
        raise
    except BaseException as ex:  # noqa: BLE001 - a crashing driver is a broken check, never a verdict
        import traceback

        traceback.print_exc()
        print(f"HARNESS-ERROR driver crashed: {type(ex).__name__}: {ex}")
        rc = 3
    sys.exit(rc)
