"""Worker process: runs one obligation (or one public-API replay) and prints a JSON result line.

usage: python -m engine.worker run    <PROP> <obligation> <tier> <seed> <known-labels-json>
       python -m engine.worker replay <PROP> <obligation> <tier> <model-json>
"""
from __future__ import annotations

import importlib
import json
import sys
import traceback

MARK = "@@RESULT@@"


def _module(prop):
    return importlib.import_module(f"harness.{prop.lower()}")


def find(prop, name, tier):
    mod = _module(prop)
    for o in mod.obligations(tier):
        if o.name == name:
            return o
    raise LookupError(f"{prop}: no obligation {name} in tier {tier}")


def main(argv):
    mode, prop, name, tier = argv[:4]
    try:
        obl = find(prop, name, tier)
        if mode == "run":
            seed = int(argv[4])
            known = json.loads(argv[5]) if len(argv) > 5 else []
            res = obl.run(seed=seed, known_labels=known)
        elif mode == "run1":
            model = json.loads(argv[4])
            if obl.kind != "sx":
                res = {"outcome": [None], "message": "not an sx obligation"}
            else:
                from . import sx

                if obl.setup is not None:
                    obl.setup()
                try:
                    out = sx._outcome_class(obl.fn, model, obl.allowed)
                except BaseException as ex:  # noqa: BLE001
                    out = ("dropped", type(ex).__name__, None, "")
                res = {"outcome": list(out)}
        elif mode == "replay":
            model = json.loads(argv[4])
            if obl.public_replay is None:
                res = {"reproduced": None, "message": "no public-API scenario for this obligation"}
            else:
                ok, msg = obl.public_replay(model)
                res = {"reproduced": bool(ok), "message": str(msg)[:2000]}
        else:
            raise ValueError(mode)
    except BaseException as ex:  # noqa: BLE001
        res = {
            "verdict": "harness-error",
            "obligation": name,
            "error": f"{type(ex).__name__}: {ex}",
            "traceback": traceback.format_exc()[-3000:],
        }
    sys.stdout.flush()
    print(MARK + json.dumps(res, default=str))
    sys.stdout.flush()


if __name__ == "__main__":
    main(sys.argv[1:])
