"""Getting at the real code of /repo's current working tree.

* reload(fn, overrides)      recompile fn from its *current source* with print()/logger.*() expression
                             statements replaced by ``pass`` and selected globals replaced by shims
* rebind(fn, overrides)      same code object, different globals (no recompilation)
* closure(outer, name, env)  re-instantiate a nested function of ``outer`` from outer's current code
                             object, with the free variables taken from ``env``
* fingerprint(fn)            qualified name + sha256 of the source, recorded in the evidence
"""
from __future__ import annotations

import ast
import hashlib
import inspect
import textwrap
import types

_ENCODED: dict[str, str] = {}


def fingerprint(fn):
    fn = inspect.unwrap(fn) if callable(fn) else fn
    try:
        src = inspect.getsource(fn)
    except (OSError, TypeError):
        src = repr(fn)
    q = f"{getattr(fn, '__module__', '?')}.{getattr(fn, '__qualname__', getattr(fn, '__name__', '?'))}"
    h = hashlib.sha256(src.encode()).hexdigest()[:16]
    _ENCODED[q] = h
    return q, h


def encoded_functions():
    return [{"qualname": q, "sha256_16": h} for q, h in sorted(_ENCODED.items())]


def record(*fns):
    for f in fns:
        fingerprint(f)


class _Strip(ast.NodeTransformer):
    def visit_Expr(self, node):
        v = node.value
        if isinstance(v, ast.Call):
            f = v.func
            if isinstance(f, ast.Name) and f.id == "print":
                return ast.Pass()
            if isinstance(f, ast.Attribute) and isinstance(f.value, ast.Name) and f.value.id == "logger":
                return ast.Pass()
        return node


def reload(fn, overrides=None, strip_logging=True, transformer=None):
    """recompile fn from its current source (AST) with the stated rewrites"""
    fingerprint(fn)
    src = textwrap.dedent(inspect.getsource(fn))
    tree = ast.parse(src)
    if strip_logging:
        tree = _Strip().visit(tree)
    if transformer is not None:
        tree = transformer.visit(tree)
    tree = ast.fix_missing_locations(tree)
    g = dict(fn.__globals__)
    g.update(overrides or {})
    code = compile(tree, inspect.getsourcefile(fn) or "<reload>", "exec")
    ns: dict = {}
    exec(code, g, ns)
    new = ns[fn.__name__]
    # the function must see its own module globals (for recursion etc.): exec'd with g as globals
    return new


def rebind(fn, overrides):
    """same code object, globals with overrides"""
    fingerprint(fn)
    g = dict(fn.__globals__)
    g.update(overrides)
    f2 = types.FunctionType(fn.__code__, g, fn.__name__, fn.__defaults__, fn.__closure__)
    f2.__kwdefaults__ = fn.__kwdefaults__
    return f2


def _find_code(code, name):
    for c in code.co_consts:
        if isinstance(c, types.CodeType):
            if c.co_name == name:
                return c
            r = _find_code(c, name)
            if r is not None:
                return r
    return None


def closure(outer, name, env, globals_override=None):
    """nested function ``name`` of ``outer`` with free variables bound from env"""
    fingerprint(outer)
    code = _find_code(outer.__code__, name)
    if code is None:
        raise LookupError(f"{outer.__qualname__} has no nested function {name}")
    cells = []
    for fv in code.co_freevars:
        if fv not in env:
            raise LookupError(f"free variable {fv} of {name} not supplied")
        cells.append(types.CellType(env[fv]))
    g = dict(outer.__globals__)
    g.update(globals_override or {})
    return types.FunctionType(code, g, name, None, tuple(cells))


def reload_module(mod, overrides=None, transformer=None, strip_logging=True):
    """execute the module's CURRENT source again in a fresh namespace (module-level state starts fresh, functions call each other
    inside that namespace) with the stated rewrites; returns the namespace dict"""
    src = inspect.getsource(mod)
    _ENCODED[f"{mod.__name__} (whole module)"] = hashlib.sha256(src.encode()).hexdigest()[:16]
    tree = ast.parse(src)
    if strip_logging:
        tree = _Strip().visit(tree)
    if transformer is not None:
        tree = transformer.visit(tree)
    tree = ast.fix_missing_locations(tree)
    g = {"__name__": mod.__name__, "__file__": getattr(mod, "__file__", "<module>"), "__package__": mod.__package__, "__builtins__": __builtins__}
    g.update(overrides or {})
    exec(compile(tree, getattr(mod, "__file__", "<module>"), "exec"), g)
    g.update(overrides or {})
    return g
