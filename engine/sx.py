"""sx -- a small z3-backed re-execution engine for real Python code.

Integer / boolean proxies (SInt, SBool, exact rational SRat) carry z3 Int terms.  The *real*
function objects are executed by CPython; every coercion of a symbolic boolean to ``bool`` is a
branch point, every coercion of a symbolic integer to a concrete one (``__index__``, ``range``,
tuple repetition, hashing) is a fork over all its feasible values.  The branch tree is explored
depth-first by re-execution with a decision prefix; feasibility of each side is decided by z3.

A harness is a callable ``h(**vars)`` that

* calls :func:`assume` for preconditions,
* calls :func:`require` (or simply raises :class:`Violated`) when the property is broken,
* may raise exceptions listed as *allowed* (an explicit refusal by the code under test),
* returns normally otherwise.

Every completed path is re-validated: a model of the path condition is turned into plain ints,
the harness is re-run without proxies and the outcome class must be identical (otherwise the
engine reports a HARNESS-ERROR instead of a verdict).

Verdicts per obligation
  holds         all paths within the bound explored, no violating model on any of them
  violated      at least one concrete, concretely re-validated counterexample
  inconclusive  a budget was hit / solver said unknown (never reported as success)
"""
from __future__ import annotations

import builtins
import math
import numbers
import time
import traceback

import z3

_py_isinstance = builtins.isinstance
_py_int = builtins.int


# --------------------------------------------------------------------------------------------
# exceptions used for control
# --------------------------------------------------------------------------------------------
class Infeasible(BaseException):
    """current path condition is unsatisfiable (or an assumption failed)"""


class Budget(BaseException):
    """a per-path or per-fork budget was exhausted -> obligation inconclusive"""


class Violated(BaseException):
    """raised by harnesses when the property is broken on the current path"""

    def __init__(self, label, detail=None):
        super().__init__(label)
        self.label = label
        self.detail = detail


class Unreachable(BaseException):
    """environment oracle exhausted: the scenario lies outside the explored bound"""


# --------------------------------------------------------------------------------------------
# state
# --------------------------------------------------------------------------------------------
class Stats:
    def __init__(self):
        self.queries = 0
        self.solver_s = 0.0
        self.paths = 0
        self.unknown = 0


class Path:
    """One execution.  `region` is the list of conditions that define the part of the input space this execution
    must cover (asserted, never branched on again); `conds` are the conditions newly decided in this run, each
    (cond, kind, expr) with kind 'b' (branch), 'v' (value fork on expr) or 'a' (assumption).  The run is steered by
    `model`, a model of region + conds so far (concolic), so replaying the region needs no positional alignment:
    a condition that is semantically implied by the region simply evaluates to the same side under the model."""

    __slots__ = ("solver", "region", "region_keys", "conds", "steps", "notes", "model", "known", "pinned", "vals")

    def __init__(self, solver, region, region_keys, model):
        self.solver = solver
        self.region = region
        self.region_keys = region_keys
        self.conds = []
        self.steps = 0
        self.notes = []
        self.model = model
        self.known = {}  # structural key of a condition already decided on this path -> truth value
        self.pinned = []  # (variable, value) pairs fixed by value forks: substituted before deciding anything
        self.vals = {}  # structural key of an expression already concretised on this path -> value

    def all_conds(self):
        return self.region + [c[0] for c in self.conds]


CUR: Path | None = None
STATS = Stats()
MAX_STEPS = 4000  # decisions per path
MAX_FORK_VALUES = 200  # feasible values per value fork
QUERY_TIMEOUT_MS = 30000


def active():
    return CUR is not None


_WATCH = {"deadline": None, "ctx": None, "started": False}


def _watchdog():
    # z3's own timeout is not always honoured inside nonlinear arithmetic: interrupt the context ourselves
    while True:
        time.sleep(1.0)
        d = _WATCH["deadline"]
        if d is not None and time.time() > d:
            try:
                _WATCH["ctx"].interrupt()
            except Exception:  # noqa: BLE001
                pass
            _WATCH["deadline"] = None


def _check(s, *extra):
    t = time.time()
    if not _WATCH["started"]:
        import threading

        _WATCH["started"] = True
        threading.Thread(target=_watchdog, daemon=True).start()
    _WATCH["ctx"] = s.ctx
    _WATCH["deadline"] = t + QUERY_TIMEOUT_MS / 1000.0 + 5
    try:
        r = s.check(*extra)
    except z3.Z3Exception:
        r = z3.unknown
    _WATCH["deadline"] = None
    STATS.queries += 1
    STATS.solver_s += time.time() - t
    if r == z3.unknown:
        STATS.unknown += 1
    return r


# --------------------------------------------------------------------------------------------
# proxies
# --------------------------------------------------------------------------------------------
def _e(o):
    if _py_isinstance(o, SInt):
        return o.e
    if _py_isinstance(o, bool):
        return z3.IntVal(_py_int(o))
    if _py_isinstance(o, _py_int):
        return z3.IntVal(o)
    if hasattr(o, "__index__") and not _py_isinstance(o, float):
        return z3.IntVal(o.__index__())
    raise TypeError(f"sx: cannot lift {type(o).__name__}")


def _b(o):
    if _py_isinstance(o, SBool):
        return o.e
    return z3.BoolVal(bool(o))


def _is_num(o):
    return _py_isinstance(o, (SInt, _py_int)) or (
        hasattr(o, "__index__") and not _py_isinstance(o, (float, str, bytes, tuple, list))
    )


def _key(e):
    """structural key of a z3 term (AST ids can be reused after garbage collection, s-expressions cannot)"""
    return e.sexpr()


class SBool:
    __slots__ = ("e",)

    def __init__(self, e):
        self.e = e

    def __bool__(self):
        p = CUR
        if p is None:
            raise RuntimeError("symbolic bool used outside exploration")
        e = z3.simplify(self.e)
        if z3.is_true(e):
            return True
        if z3.is_false(e):
            return False
        if p.pinned:
            e = z3.simplify(z3.substitute(e, *p.pinned))
            if z3.is_true(e):
                return True
            if z3.is_false(e):
                return False
        key = _key(e)
        if key in p.known:
            return p.known[key]  # same condition already decided on this path
        # the side the current model takes is feasible by construction; the other side is decided by the
        # solver when siblings are scheduled
        ev = p.model.eval(e, model_completion=True)
        if z3.is_true(ev):
            d = True
        elif z3.is_false(ev):
            d = False
        else:
            base = p.all_conds()
            r = _check(p.solver, *base, e)
            if r == z3.unknown:
                raise Budget("solver unknown")
            d = r == z3.sat
            if not d:
                r2 = _check(p.solver, *base, z3.Not(e))
                if r2 != z3.sat:
                    raise Infeasible()
            p.model = p.solver.model()
        c = e if d else z3.Not(e)
        p.known[key] = d
        if z3.is_not(e):
            p.known[_key(e.arg(0))] = not d
        if _key(c) in p.region_keys:
            return d  # part of the region this execution was scheduled for: not a new decision
        p.steps += 1
        if p.steps > MAX_STEPS:
            raise Budget("path step budget")
        p.conds.append((c, "b", None))
        return d

    def __and__(self, o):
        return SBool(z3.And(self.e, _b(o)))

    __rand__ = __and__

    def __or__(self, o):
        return SBool(z3.Or(self.e, _b(o)))

    __ror__ = __or__

    def __invert__(self):
        return SBool(z3.Not(self.e))

    def __eq__(self, o):
        if _py_isinstance(o, (SBool, bool)):
            return SBool(self.e == _b(o))
        return NotImplemented

    def __hash__(self):
        return hash(bool(self))

    def __repr__(self):
        return f"SBool({self.e})"


def _fork_value(expr):
    """fork over the feasible concrete values of a z3 Int expression"""
    p = CUR
    if p is None:
        raise RuntimeError("symbolic int concretised outside exploration")
    expr = z3.simplify(expr)
    if z3.is_int_value(expr):
        return expr.as_long()
    if p.pinned:
        expr = z3.simplify(z3.substitute(expr, *p.pinned))
        if z3.is_int_value(expr):
            return expr.as_long()
    xid = _key(expr)
    if xid in p.vals:
        return p.vals[xid]
    ev = p.model.eval(expr, model_completion=True)
    if not z3.is_int_value(ev):
        r = _check(p.solver, *p.all_conds())
        if r != z3.sat:
            raise Budget("solver unknown")
        p.model = p.solver.model()
        ev = p.model.eval(expr, model_completion=True)
    v = ev.as_long()
    c = expr == v
    p.vals[xid] = v
    if z3.is_const(expr) and expr.decl().kind() == z3.Z3_OP_UNINTERPRETED:
        p.pinned.append((expr, z3.IntVal(v)))
    if _key(c) in p.region_keys:
        return v
    p.steps += 1
    if p.steps > MAX_STEPS:
        raise Budget("path step budget")
    p.conds.append((c, "v", expr))
    return v


class SInt:
    __slots__ = ("e",)

    def __init__(self, e):
        self.e = e

    # arithmetic
    def __add__(s, o):
        if not _is_num(o):
            return NotImplemented
        return SInt(s.e + _e(o))

    __radd__ = __add__

    def __sub__(s, o):
        if not _is_num(o):
            return NotImplemented
        return SInt(s.e - _e(o))

    def __rsub__(s, o):
        if not _is_num(o):
            return NotImplemented
        return SInt(_e(o) - s.e)

    def __mul__(s, o):
        if _py_isinstance(o, float):
            return float(s) * o
        if not _is_num(o):
            return NotImplemented  # tuple/list/str repetition falls back to __index__
        return SInt(s.e * _e(o))

    __rmul__ = __mul__

    def __neg__(s):
        return SInt(-s.e)

    def __pos__(s):
        return s

    def __abs__(s):
        return SInt(z3.If(s.e >= 0, s.e, -s.e))

    def _divmod(s, a, b):
        """python floor division of z3 ints a by b (forks on the sign of a symbolic divisor)"""
        bs = z3.simplify(b)
        if z3.is_int_value(bs):
            bv = bs.as_long()
            if bv == 0:
                raise ZeroDivisionError("integer division or modulo by zero")
            if bv > 0:
                return a / bs, a % bs
            q = (-a) / (-bs)
            return q, a - bs * q
        if bool(SBool(b > 0)):
            return a / b, a % b
        if bool(SBool(b == 0)):
            raise ZeroDivisionError("integer division or modulo by zero")
        q = (-a) / (-b)
        return q, a - b * q

    def __floordiv__(s, o):
        if _py_isinstance(o, float):
            return float(s) // o
        if not _is_num(o):
            return NotImplemented
        return SInt(s._divmod(s.e, _e(o))[0])

    def __rfloordiv__(s, o):
        if not _is_num(o):
            return NotImplemented
        return SInt(s._divmod(_e(o), s.e)[0])

    def __mod__(s, o):
        if not _is_num(o):
            return NotImplemented
        return SInt(s._divmod(s.e, _e(o))[1])

    def __rmod__(s, o):
        if not _is_num(o):
            return NotImplemented
        return SInt(s._divmod(_e(o), s.e)[1])

    def __divmod__(s, o):
        q, r = s._divmod(s.e, _e(o))
        return SInt(q), SInt(r)

    def __rdivmod__(s, o):
        q, r = s._divmod(_e(o), s.e)
        return SInt(q), SInt(r)

    def __truediv__(s, o):
        if _py_isinstance(o, float):
            return float(s) / o
        if not _is_num(o):
            return NotImplemented
        return SRat(s, o if _py_isinstance(o, SInt) else SInt(_e(o)))

    def __rtruediv__(s, o):
        if _py_isinstance(o, float):
            return o / float(s)
        if not _is_num(o):
            return NotImplemented
        return SRat(SInt(_e(o)), s)

    def __pow__(s, o, m=None):
        v = _fork_value(s.e)
        return pow(v, _py_int(o) if _py_isinstance(o, SInt) else o, m) if m is not None else v ** (
            _py_int(o) if _py_isinstance(o, SInt) else o
        )

    def __rpow__(s, o):
        return o ** _fork_value(s.e)

    # comparisons
    def __lt__(s, o):
        if _py_isinstance(o, SRat):
            return o > s
        if _py_isinstance(o, float):
            return _cmp_float(s, o, "lt")
        if not _is_num(o):
            return NotImplemented
        return SBool(s.e < _e(o))

    def __le__(s, o):
        if _py_isinstance(o, SRat):
            return o >= s
        if _py_isinstance(o, float):
            return _cmp_float(s, o, "le")
        if not _is_num(o):
            return NotImplemented
        return SBool(s.e <= _e(o))

    def __gt__(s, o):
        if _py_isinstance(o, SRat):
            return o < s
        if _py_isinstance(o, float):
            return _cmp_float(s, o, "gt")
        if not _is_num(o):
            return NotImplemented
        return SBool(s.e > _e(o))

    def __ge__(s, o):
        if _py_isinstance(o, SRat):
            return o <= s
        if _py_isinstance(o, float):
            return _cmp_float(s, o, "ge")
        if not _is_num(o):
            return NotImplemented
        return SBool(s.e >= _e(o))

    def __eq__(s, o):
        if _py_isinstance(o, float):
            return _cmp_float(s, o, "eq")
        if not _is_num(o):
            return NotImplemented
        return SBool(s.e == _e(o))

    def __ne__(s, o):
        if _py_isinstance(o, float):
            return ~_cmp_float(s, o, "eq")
        if not _is_num(o):
            return NotImplemented
        return SBool(s.e != _e(o))

    # concretisation
    def __index__(s):
        return _fork_value(s.e)

    __int__ = __index__

    def __float__(s):
        return float(_fork_value(s.e))

    def __hash__(s):
        return hash(_fork_value(s.e))

    def __bool__(s):
        return bool(SBool(s.e != 0))

    def __trunc__(s):
        return s

    def __floor__(s):
        return s

    def __ceil__(s):
        return s

    def __round__(s, n=None):
        return s

    def is_integer(s):
        return True

    @property
    def real(s):
        return s

    @property
    def imag(s):
        return 0

    @property
    def numerator(s):
        return s

    @property
    def denominator(s):
        return 1

    def bit_length(s):
        return _fork_value(s.e).bit_length()

    def __repr__(s):
        return f"<{z3.simplify(s.e)}>"

    __str__ = __repr__

    def __format__(s, spec):
        return repr(s)


numbers.Integral.register(SInt)


def _cmp_float(s, f, op):
    """compare symbolic int with a concrete float exactly (floats are exact rationals)"""
    if f != f:  # nan
        return SBool(z3.BoolVal(op == "ne"))
    if f in (float("inf"), float("-inf")):
        pos = f > 0
        return SBool(z3.BoolVal({"lt": pos, "le": pos, "gt": not pos, "ge": not pos, "eq": False}[op]))
    num, den = f.as_integer_ratio()
    a, b = s.e * den, z3.IntVal(num)
    return SBool({"lt": a < b, "le": a <= b, "gt": a > b, "ge": a >= b, "eq": a == b}[op])


class SRat:
    """exact rational a/b produced by true division of ints.

    Stands for the binary64 quotient under the stated lemma: for |a|,|b| < 2**53 the correctly
    rounded quotient q satisfies floor(q) == a//b, ceil(q) == -((-a)//b) and comparisons of q with
    integers < 2**53 agree with the exact rational (discharged as a QF_FP query by lemma_fp.py).
    The divisor is forced positive/negative by forking, zero raises ZeroDivisionError.
    """

    __slots__ = ("a", "b")

    def __init__(s, a, b):
        if _py_isinstance(b, SInt):
            if bool(b == 0):
                raise ZeroDivisionError("division by zero")
            if bool(b < 0):
                a, b = -a, -b
        s.a = a
        s.b = b

    def _cmp(s, o, op):
        if _py_isinstance(o, SRat):
            return op(_e(s.a) * _e(o.b), _e(o.a) * _e(s.b))
        if _py_isinstance(o, float):
            num, den = o.as_integer_ratio()
            return op(_e(s.a) * den, z3.IntVal(num) * _e(s.b))
        return op(_e(s.a), _e(o) * _e(s.b))

    def __gt__(s, o):
        return SBool(s._cmp(o, lambda x, y: x > y))

    def __ge__(s, o):
        return SBool(s._cmp(o, lambda x, y: x >= y))

    def __lt__(s, o):
        return SBool(s._cmp(o, lambda x, y: x < y))

    def __le__(s, o):
        return SBool(s._cmp(o, lambda x, y: x <= y))

    def __eq__(s, o):
        return SBool(s._cmp(o, lambda x, y: x == y))

    def __ne__(s, o):
        return SBool(s._cmp(o, lambda x, y: x != y))

    def __hash__(s):
        return hash(float(s))

    def __floor__(s):
        return SInt(_e(s.a) / _e(s.b))

    def __ceil__(s):
        return SInt(-((-_e(s.a)) / _e(s.b)))

    def __trunc__(s):
        a, b = _e(s.a), _e(s.b)
        # fork on the sign of the numerator (usually one-sided) instead of building nested if-then-else terms
        if bool(SBool(a >= 0)):
            return SInt(a / b)
        return SInt(-((-a) / b))

    __int__ = None  # set below

    def __float__(s):
        return _fork_value(_e(s.a)) / _fork_value(_e(s.b))

    def __mul__(s, o):
        if _py_isinstance(o, float):
            return float(s) * o
        if _py_isinstance(o, SRat):
            return SRat(s.a * o.a, s.b * o.b)
        return SRat(s.a * o, s.b)

    __rmul__ = __mul__

    def __truediv__(s, o):
        if _py_isinstance(o, float):
            return float(s) / o
        if _py_isinstance(o, SRat):
            return SRat(s.a * o.b, s.b * o.a)
        return SRat(s.a, s.b * o)

    def __add__(s, o):
        if _py_isinstance(o, float):
            return float(s) + o
        if _py_isinstance(o, SRat):
            return SRat(s.a * o.b + o.a * s.b, s.b * o.b)
        return SRat(s.a + o * s.b, s.b)

    __radd__ = __add__

    def __sub__(s, o):
        if _py_isinstance(o, SRat):
            return SRat(s.a * o.b - o.a * s.b, s.b * o.b)
        return SRat(s.a - o * s.b, s.b)

    def __neg__(s):
        return SRat(-s.a, s.b)

    def __bool__(s):
        return bool(SBool(_e(s.a) != 0))

    def is_integer(s):
        return SBool(_e(s.a) % _e(s.b) == 0)

    def __repr__(s):
        return f"<{s.a}/{s.b}>"


SRat.__int__ = lambda s: s.__trunc__()


# --------------------------------------------------------------------------------------------
# harness helpers (work with proxies and with plain ints)
# --------------------------------------------------------------------------------------------
def assume(cond):
    """restrict the current path; drops it if infeasible"""
    if _py_isinstance(cond, SBool):
        p = CUR
        e = z3.simplify(cond.e)
        if z3.is_true(e):
            return
        if z3.is_false(e):
            raise Infeasible()
        if not z3.is_true(p.model.eval(e, model_completion=True)):
            r = _check(p.solver, *p.all_conds(), e)
            if r == z3.unknown:
                raise Budget("solver unknown")
            if r != z3.sat:
                raise Infeasible()
            p.model = p.solver.model()
        k = _key(e)
        p.known[k] = True
        if k not in p.region_keys:
            p.conds.append((e, "a", None))
        return
    if not cond:
        raise Infeasible()


_FRESH = {"n": 0, "used": False}


def fresh(name, lo, hi):
    """a fresh bounded integer chosen by the environment (an over-approximated external result).  Paths that use
    fresh values are re-validated against the real environment; a counterexample that exists only under the
    over-approximation is reported as 'contract-only', never as a violation."""
    p = CUR
    if p is None:
        raise RuntimeError("fresh() outside exploration")
    _FRESH["n"] += 1
    _FRESH["used"] = True
    v = z3.Int(f"{name}#{_FRESH['n']}")
    x = SInt(v)
    assume(x >= lo)
    assume(x <= hi)
    return x


def require(cond, label, detail=None):
    if not cond:
        raise Violated(label, detail)


def note(x):
    if CUR is not None:
        CUR.notes.append(x)


def conc(x):
    """concrete int of a value (value-forks a proxy)"""
    if _py_isinstance(x, SInt):
        return _fork_value(x.e)
    return x


def smin(*xs):
    m = xs[0]
    for x in xs[1:]:
        if x < m:
            m = x
    return m


def ite(c, a, b):
    """non-forking if-then-else over ints"""
    if _py_isinstance(c, SBool):
        return SInt(z3.If(c.e, _e(a), _e(b)))
    return a if c else b


def sand(*cs):
    if any(_py_isinstance(c, SBool) for c in cs):
        return SBool(z3.And(*[_b(c) for c in cs]))
    return all(cs)


def sor(*cs):
    if any(_py_isinstance(c, SBool) for c in cs):
        return SBool(z3.Or(*[_b(c) for c in cs]))
    return any(cs)


def snot(c):
    if _py_isinstance(c, SBool):
        return SBool(z3.Not(c.e))
    return not c


def implies(a, b):
    return sor(snot(a), b)


# --------------------------------------------------------------------------------------------
# exploration
# --------------------------------------------------------------------------------------------
class Var:
    def __init__(self, name, lo, hi):
        self.name, self.lo, self.hi = name, lo, hi


def _outcome_class(fn, kwargs, allowed):
    """run fn(**kwargs) and classify the outcome"""
    try:
        fn(**kwargs)
        return ("ok", None, None, "")
    except Violated as v:
        return ("violated", v.label, v.detail, "")
    except (Infeasible, Budget, Unreachable):
        raise
    except allowed as ex:
        return ("refused", type(ex).__name__, str(ex)[:200], "")
    except Exception as ex:  # noqa: BLE001 - any other exception escaping is itself an outcome
        tb = traceback.extract_tb(ex.__traceback__)
        where = func = ""
        for fr in reversed(tb):
            if "/repo/" in fr.filename:
                where = f"{fr.filename.split('/repo/')[-1]}:{fr.lineno}:{fr.name}"
                func = f"{fr.filename.split('/repo/')[-1]}:{fr.name}"
                break
        if not where and tb:
            fr = tb[-1]
            where = f"{fr.filename.split('/')[-1]}:{fr.lineno}:{fr.name}"
            func = f"{fr.filename.split('/')[-1]}:{fr.name}"
        # who is responsible: walk up from the raising frame; the first frame that belongs to the code under test
        # (/repo) or to a stub standing in for a library makes it an outcome of the code under test; if harness /
        # engine / geom code is met first (it called into a library itself), it is a harness bug
        for fr in reversed(tb):
            fnm = fr.filename
            if "/repo/" in fnm or "/verif/stubs/" in fnm:
                break
            if "/verif/harness/" in fnm or "/verif/engine/" in fnm or "/verif/geom/" in fnm:
                return ("harness-bug", type(ex).__name__, f"{str(ex)[:200]} [{fnm}:{fr.lineno}]", func)
        return ("raised", type(ex).__name__, f"{where}: {str(ex)[:200]}", func)


def explore(
    fn,
    variables,
    *,
    allowed=(),
    unexpected_is_violation=True,
    max_paths=200000,
    wall_s=None,
    validate=True,
    max_cex=8,
    witness_rule=None,
    seed=0,
    known_labels=(),
    need_ok=True,
):
    """Explore fn over the declared integer variables.

    variables: list of (name, lo, hi) -- bounded integer domains (the stated bound).
    allowed:   exception types that count as an explicit refusal by the code under test.
    Returns a dict (verdict, paths, queries, solver_s, counterexamples, samples, ...).
    """
    global CUR, STATS
    STATS = Stats()
    t0 = time.time()
    s = z3.Solver()
    s.set("timeout", QUERY_TIMEOUT_MS)
    if seed:
        s.set("random_seed", seed % (2**30))
    zvars = {}
    for name, lo, hi in variables:
        v = z3.Int(name)
        zvars[name] = v
        s.add(v >= lo, v <= hi)
    allowed = tuple(allowed)
    if _check(s) != z3.sat:
        raise RuntimeError("variable domains unsatisfiable")
    stack = [([], frozenset(), s.model())]
    cex = []
    known = {}
    samples = []
    outcome_counts = {}
    inconclusive = []
    harness_errors = []
    reached = 0  # paths that ran to an outcome
    contract_only = 0
    nontrivial = set()
    unreachable = 0
    while stack:
        if wall_s is not None and time.time() - t0 > wall_s:
            inconclusive.append("wall budget")
            break
        if STATS.paths >= max_paths:
            inconclusive.append("path budget")
            break
        region, rkeys, pmodel = stack.pop()
        CUR = p = Path(s, region, rkeys, pmodel)
        _FRESH["n"] = 0
        _FRESH["used"] = False
        kwargs = {n: SInt(v) for n, v in zvars.items()}
        _FRESH_USED_IN_PATH[0] = False
        try:
            out = _outcome_class(fn, kwargs, allowed)
            _FRESH_USED_IN_PATH[0] = _FRESH["used"]
        except Infeasible:
            CUR = None
            _push_siblings(s, p, stack)
            continue
        except Unreachable:
            CUR = None
            unreachable += 1
            _push_siblings(s, p, stack)
            continue
        except Budget as b:
            CUR = None
            inconclusive.append(str(b))
            _push_siblings(s, p, stack)
            continue
        finally:
            CUR = None
        STATS.paths += 1
        reached += 1
        _push_siblings(s, p, stack)
        kind = out[0] if out[0] in ("ok", "violated") else f"{out[0]}:{out[1]}"
        outcome_counts[kind] = outcome_counts.get(kind, 0) + 1
        # model of the path (maintained concolically: satisfies every condition taken)
        m = p.model
        model = {n: m.eval(v, model_completion=True).as_long() for n, v in zvars.items()}
        if validate:
            try:
                cout = _outcome_class(fn, dict(model), allowed)
            except (Infeasible, Unreachable) as ex:
                cout = ("dropped", type(ex).__name__, None)
            if (cout[0], cout[1]) != (out[0], out[1]):
                if _FRESH_USED_IN_PATH[0]:
                    # the path used an over-approximated environment value: the real environment decides
                    contract_only += 1
                    if cout[0] in ("violated", "raised") and cout[0] != "harness-bug":
                        out = cout  # the real run fails: report that
                    else:
                        continue
                else:
                    harness_errors.append({"model": model, "symbolic": list(out), "concrete": list(cout)})
                    continue
        if out[0] == "harness-bug":
            harness_errors.append({"model": model, "harness-bug": list(out)})
            continue
        bad = out[0] == "violated" or (out[0] == "raised" and unexpected_is_violation)
        if bad:
            label = f"{out[0]}:{out[1]}" + (f"@{out[3]}" if out[3] else "")
            rec = {"model": model, "label": label, "detail": out[2], "notes": [str(x) for x in p.notes][:6]}
            if label in known_labels:
                k = known.setdefault(label, {"count": 0, "example": rec})
                k["count"] += 1
            elif len(cex) < max_cex or not any(c["label"] == label for c in cex):
                cex.append(rec)
        else:
            if witness_rule is None or witness_rule(model):
                nontrivial.add(tuple(sorted(model.items())))
            if len(samples) < 5:
                samples.append({"model": model, "outcome": kind, "notes": [str(x) for x in p.notes][:6]})
    CUR = None
    if harness_errors:
        verdict = "harness-error"
    elif cex:
        verdict = "violated"
    elif inconclusive or STATS.unknown:
        verdict = "inconclusive"
        if STATS.unknown:
            inconclusive.append(f"the solver answered unknown (or was interrupted) on {STATS.unknown} query/queries: those regions are undecided")
    elif outcome_counts.get("ok", 0) == 0 and need_ok:
        verdict = "inconclusive"
        inconclusive.append("no path completed normally: every path was refused/dropped (vacuous)")
    else:
        verdict = "holds"
    return {
        "verdict": verdict,
        "paths": STATS.paths,
        "queries": STATS.queries,
        "solver_s": round(STATS.solver_s, 3),
        "wall_s": round(time.time() - t0, 3),
        "reached": reached,
        "unreachable_paths": unreachable,
        "outcomes": outcome_counts,
        "counterexamples": cex,
        "known_hits": known,
        "samples": samples,
        "distinct_nontrivial": len(nontrivial),
        "contract_only_mismatches": contract_only,
        "inconclusive": sorted(set(inconclusive)),
        "harness_errors": harness_errors[:5],
        "exhaustive": verdict == "holds",
    }


_FRESH_USED_IN_PATH = [False]


def _push_siblings(s, p, stack):
    """schedule the unexplored sides of every decision taken in this run (each with its region and a model)"""
    base = list(p.region)
    keys = set(p.region_keys)
    for c, kind, expr in p.conds:
        if kind == "b":
            alt = z3.Not(c)
            r = _check(s, *base, alt)
            if r == z3.sat:
                stack.append((base + [alt], frozenset(keys | {_key(alt)}), s.model()))
            # unknown is counted in STATS.unknown -> obligation inconclusive
        elif kind == "v":
            excl = [z3.Not(c)]
            n = 0
            while True:
                r = _check(s, *base, *excl)
                if r != z3.sat:
                    break
                mm = s.model()
                v = mm.eval(expr, model_completion=True).as_long()
                cv = expr == v
                stack.append((base + [cv], frozenset(keys | {_key(cv)}), mm))
                excl.append(expr != v)
                n += 1
                if n > MAX_FORK_VALUES:
                    STATS.unknown += 1  # treated as inconclusive: unbounded fork
                    break
        base.append(c)
        keys.add(_key(c))


# --------------------------------------------------------------------------------------------
# making real cubed code accept proxies (done inside the check process only; /repo untouched)
# --------------------------------------------------------------------------------------------
def sx_isinstance(obj, cls):
    if _py_isinstance(obj, SInt):
        if cls is _py_int or cls is SxInt:
            return True
        if _py_isinstance(cls, tuple) and (_py_int in cls or SxInt in cls):
            return True
    return _py_isinstance(obj, cls)


class _SxIntMeta(type):
    def __instancecheck__(cls, obj):
        return _py_isinstance(obj, (_py_int, SInt))


class SxInt(metaclass=_SxIntMeta):
    """stands in for the builtin ``int`` inside loaded cubed modules: passes proxies through"""

    def __new__(cls, x=0, *a):
        if _py_isinstance(x, SInt):
            return x
        if _py_isinstance(x, SRat):
            return x.__trunc__()
        return _py_int(x, *a)


class NpShim:
    """delegating stand-in for the module global ``np``: integer-only entry points accept proxies"""

    def __init__(self, real):
        object.__setattr__(self, "_real", real)

    def __getattr__(self, k):
        return getattr(self._real, k)

    def isnan(self, x):
        if _py_isinstance(x, (SInt, _py_int)):
            return False
        return self._real.isnan(x)


def patch_cubed_modules():
    """module-level isinstance/int/np bindings that treat proxies as ints, in every loaded cubed module"""
    import sys

    import numpy

    patched = []
    for name, mod in list(sys.modules.items()):
        if name.startswith("cubed") and mod is not None:
            d = mod.__dict__
            d["isinstance"] = sx_isinstance
            d["int"] = SxInt
            if d.get("np") is numpy:
                d["np"] = NpShim(numpy)
            patched.append(name)
    return patched
