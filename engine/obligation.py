"""Obligation objects: what a harness module exports and what a worker process runs."""
from __future__ import annotations

import json
import os
import time

from . import loader


class Obl:
    """One solver obligation.

    kind 'sx'    : fn(**ints) explored by engine.sx over the declared bounded variables
    kind 'xhair' : a PEP-316 contract function checked by CrossHair (file, function name)
    kind 'z3'    : fn() -> dict builds and discharges its own queries (lemmas); returns a result dict
    """

    def __init__(
        self,
        name,
        fn=None,
        vars=(),
        *,
        kind="sx",
        allowed=(),
        setup=None,
        functions=(),
        bounds="",
        outside="",
        stubs=(),
        assumptions=(),
        wall_s=150,
        public_replay=None,
        witness_rule=None,
        unexpected_is_violation=True,
        xhair_file=None,
        xhair_func=None,
        xhair_timeout=60,
        expect_reach=True,
        twin_of=None,
        max_paths=400000,
    ):
        self.name = name
        self.fn = fn
        self.vars = list(vars)
        self.kind = kind
        self.allowed = tuple(allowed)
        self.setup = setup
        self.functions = list(functions)
        self.bounds = bounds
        self.outside = outside
        self.stubs = list(stubs)
        self.assumptions = list(assumptions)
        import os

        cap = int(os.environ.get("VERIF_OBL_WALL", "0") or 0)  # optional cap on every obligation's wall budget (a capped obligation is inconclusive, never a success)
        self.wall_s = min(wall_s, cap) if cap else wall_s
        self.public_replay = public_replay
        self.witness_rule = witness_rule
        self.unexpected_is_violation = unexpected_is_violation
        self.xhair_file = xhair_file
        self.xhair_func = xhair_func
        self.xhair_timeout = xhair_timeout
        self.expect_reach = expect_reach
        self.twin_of = twin_of  # reachability twin: must come back *violated*
        self.max_paths = max_paths

    def run(self, seed=0, known_labels=()):
        t0 = time.time()
        if self.setup is not None:
            self.setup()
        for f in self.functions:
            loader.record(f)
        if self.kind == "sx":
            from . import sx

            res = sx.explore(
                self.fn,
                self.vars,
                allowed=self.allowed,
                unexpected_is_violation=self.unexpected_is_violation,
                wall_s=self.wall_s,
                witness_rule=self.witness_rule,
                seed=seed,
                max_paths=self.max_paths,
                known_labels=tuple(known_labels),
            )
        elif self.kind == "xhair":
            from . import xhair

            res = xhair.run(self, seed)
        elif self.kind == "z3":
            res = self.fn()
        else:
            raise ValueError(self.kind)
        res["obligation"] = self.name
        res["engine"] = {"sx": "sx (z3 %s)" % _z3v(), "xhair": "CrossHair 0.0.110", "z3": "z3 %s direct" % _z3v()}[self.kind]
        res["functions"] = loader.encoded_functions()
        res["bounds"] = self.bounds
        res["outside_claim"] = self.outside
        res["stubs"] = self.stubs
        res["assumptions"] = self.assumptions
        res["vars"] = [list(v) for v in self.vars]
        res["twin_of"] = self.twin_of
        res.setdefault("wall_s", round(time.time() - t0, 3))
        return res


def _z3v():
    import z3

    return z3.get_version_string()
