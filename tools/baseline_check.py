#!/usr/bin/env python3
"""Runs the repository's baseline test command and checks that every stable-pass test of BASELINE.json still passes."""
import json, subprocess, sys, tempfile, os, xml.etree.ElementTree as ET
b = json.load(open("/root/.vp/BASELINE.json"))
out = tempfile.mktemp(suffix=".xml", dir="/tmp")
cmd = b["cmd"].replace("<file>", out)
env = dict(os.environ); env.pop("CUBED_VERIF", None)
p = subprocess.run(cmd, shell=True, capture_output=True, text=True, env=env)
passed = set()
for tc in ET.parse(out).getroot().iter("testcase"):
    if not any(ch.tag in ("failure", "error", "skipped") for ch in tc):
        passed.add(f"{tc.get('classname')}::{tc.get('name')}")
os.remove(out)
missing = [t for t in b["stable_pass"] if t not in passed]
print(f"stable_pass={len(b['stable_pass'])} passed_now={len(passed)} missing={len(missing)}")
for t in missing[:40]:
    print("  MISSING", t)
sys.exit(1 if missing else 0)
