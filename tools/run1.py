#!/usr/bin/env python3
"""debug helper: run one obligation in-process and print the result: tools/run1.py C01 'route[negative]' [quick]"""
import sys, json, os
sys.path.insert(0, os.path.dirname(os.path.dirname(os.path.abspath(__file__))))
from engine import worker
prop, name = sys.argv[1], sys.argv[2]
tier = sys.argv[3] if len(sys.argv) > 3 else "quick"
o = worker.find(prop, name, tier)
r = o.run()
r.pop("functions", None)
print(json.dumps({k: v for k, v in r.items() if k not in ("samples",)}, indent=1, default=str)[:6000])
