import tracemalloc, tempfile, shutil, numpy as np, zarr, cubed, cubed.array_api as xp
from cubed.core.plan import arrays_to_plan
from cubed.primitive.blockwise import apply_blockwise
from cubed.utils import array_memory
N=2_000_000
d=tempfile.mkdtemp(prefix="verif_c03_")
try:
    z = zarr.create_array(store=d+"/x.zarr", shape=(4,N), chunks=(2,N), dtype="int8", compressors=None); z[:] = 1
    spec = cubed.Spec(work_dir=d+"/w", allowed_mem=4_000_000_000, reserved_mem=0, zarr_compressor=None)
    x = cubed.from_zarr(d+"/x.zarr", spec=spec)
    y = xp.sum(x, axis=0)
    fp = arrays_to_plan(y)._finalize(optimize_graph=False)
    for nm, dd in fp.dag.nodes(data=True):
        if nm == "create-arrays":
            for a in dd["pipeline"].mappable: a.create(mode="a")
    import networkx as nx
    for nm in nx.topological_sort(fp.dag):
        dd = fp.dag.nodes[nm]
        if "primitive_op" in dd and nm != "create-arrays":
            op = dd["primitive_op"]
            for coords in list(op.pipeline.mappable)[:1]:
                tracemalloc.start(); apply_blockwise(list(coords), config=op.pipeline.config); cur, peak = tracemalloc.get_traced_memory(); tracemalloc.stop()
                print(nm, dd.get("op_display_name"), "peak", peak, "projected", op.projected_mem, "ratio %.3f" % (peak/op.projected_mem))
            for coords in list(op.pipeline.mappable)[1:]:
                apply_blockwise(list(coords), config=op.pipeline.config)
finally:
    shutil.rmtree(d, ignore_errors=True)
