#!/bin/bash
# tools/seed_eval.sh <seed-id> <worktree> <demo-file> <PROP> [<PROP>...]
# 1. confirms the seeded change in a scratch worktree (demo fails with it, passes without), 2. applies it to /repo, runs the
# quick checks of the given properties, 3. restores /repo.  Results go to /verif/seeded/<seed-id>/.
set -u
ID=$1; WT=$2; DEMO=$3; shift 3
D=/verif/seeded/$ID; mkdir -p $D
cp $WT/patch.diff $D/patch.diff; cp $WT/$DEMO $D/$DEMO
SCR=/tmp/seedscratch_$ID
git -C /repo worktree add -q --detach $SCR HEAD
( cd $SCR && PYTHONPATH=$SCR timeout 600 /venv/bin/python $D/$DEMO >$D/demo_without.log 2>&1; echo "demo without change: exit $?" ) | tee $D/confirm.log
( cd $SCR && git apply $D/patch.diff && PYTHONPATH=$SCR timeout 600 /venv/bin/python $D/$DEMO >$D/demo_with.log 2>&1; echo "demo with change: exit $?" ) | tee -a $D/confirm.log
git -C /repo worktree remove --force $SCR
cd /verif
git -C /repo apply $D/patch.diff || { echo "PATCH DOES NOT APPLY TO /repo"; exit 2; }
for P in "$@"; do
  ./check $P --tier quick > $D/check_$P.log 2>&1; rc=$?
  echo "check $P: exit $rc; $(grep -c '^VIOLATION' $D/check_$P.log) VIOLATION line(s); $(grep -c 'HARNESS-ERROR' $D/check_$P.log) harness-error line(s); $(grep -c '^INCONCLUSIVE' $D/check_$P.log) inconclusive" | tee -a $D/confirm.log
  grep -m3 "counterexample" $D/check_$P.log | cut -c1-300
done
git -C /repo checkout -- .
git -C /repo status --short | grep -v '^??' && echo "WARNING: /repo not clean"
# evidence files were rewritten by the runs on the mutated tree: restore the committed ones
git -C /verif checkout -- evidence 2>/dev/null
