#!/bin/bash
# tools/seed_eval.sh <seed-id> <worktree> <demo-file> <PROP> [<PROP>...]
# 1. confirms the seeded change in a scratch worktree (demo fails with it, passes without), 2. runs the quick checks of the
# given properties against the changed code, 3. restores.  Results go to /verif/seeded/<seed-id>/.
# Default mode applies the patch to /repo itself (git -C /repo apply ... ; git -C /repo checkout -- .).  With SEED_SCRATCH=1 the
# checks instead run against a scratch worktree /tmp/seedwt_<id>/repo put first on PYTHONPATH (the engine imports `cubed` from
# sys.path and recognises code under test by "/repo/" in the file name), so that /repo is not disturbed while other runs
# (vp run, baseline suite) are using it.  Evidence files rewritten by these runs are restored from git afterwards.
set -u
ID=$1; WT=$2; DEMO=$3; shift 3
D=/verif/seeded/$ID; mkdir -p $D
[ -f $WT/patch.diff ] && cp $WT/patch.diff $D/patch.diff
[ -f $WT/$DEMO ] && cp $WT/$DEMO $D/$DEMO
SCR=/tmp/seedwt_$ID/repo; mkdir -p /tmp/seedwt_$ID
git -C /repo worktree add -q --detach $SCR HEAD
( cd $SCR && PYTHONPATH=$SCR timeout 900 /venv/bin/python $D/$DEMO >$D/demo_without.log 2>&1; echo "demo without change: exit $?" ) | tee $D/confirm.log
( cd $SCR && git apply $D/patch.diff && PYTHONPATH=$SCR timeout 900 /venv/bin/python $D/$DEMO >$D/demo_with.log 2>&1; echo "demo with change: exit $?" ) | tee -a $D/confirm.log
cd /verif
if [ "${SEED_SCRATCH:-0}" = 1 ]; then
  export PYTHONPATH=$SCR
  echo "checks run against scratch worktree $SCR (PYTHONPATH)" | tee -a $D/confirm.log
else
  git -C /repo worktree remove --force $SCR; rmdir /tmp/seedwt_$ID 2>/dev/null
  git -C /repo apply $D/patch.diff || { echo "PATCH DOES NOT APPLY TO /repo"; exit 2; }
fi
for P in "$@"; do
  ./check $P --tier quick ${SEED_ONLY:+--only "$SEED_ONLY"} > $D/check_$P.log 2>&1; rc=$?
  echo "check $P: exit $rc; $(grep -c '^VIOLATION' $D/check_$P.log) VIOLATION line(s); $(grep -c 'HARNESS-ERROR' $D/check_$P.log) harness-error line(s); $(grep -c '^INCONCLUSIVE' $D/check_$P.log) inconclusive" | tee -a $D/confirm.log
  grep -m3 "counterexample" $D/check_$P.log | cut -c1-300
  git -C /verif checkout -- evidence/$P.json 2>/dev/null
done
if [ "${SEED_SCRATCH:-0}" = 1 ]; then
  git -C /repo worktree remove --force $SCR; rmdir /tmp/seedwt_$ID 2>/dev/null
else
  git -C /repo checkout -- .
  git -C /repo status --short | grep -v '^??' && echo "WARNING: /repo not clean"
fi
