#!/usr/bin/env python3
"""Regenerates MANIFEST.json from tools/manifest_src.py and validates it against the schema."""
import json, os, sys
ROOT = os.path.dirname(os.path.dirname(os.path.abspath(__file__)))
sys.path.insert(0, os.path.join(ROOT, "tools"))
import manifest_src as src

checks = []
for pid, c in sorted(src.CHECKS.items()):
    checks.append({
        "property_id": pid,
        "quick_cmd": f"./check {pid} --tier quick",
        "thorough_cmd": f"./check {pid} --tier thorough",
        "evidence_file": f"/verif/evidence/{pid}.json",
        "replay_cmd_template": f"./check {pid} --replay {{path}}",
        "engine": c.get("engine", "sx"),
        "level_claimed": {"category": "other", "text": c["text"], "design_ref": c.get("design_ref", "DESIGN.md §5 " + pid)},
        "level_note": c["note"],
        "technique": c["technique"],
    })
m = {
    "version": 1,
    "setup_cmd": "./setup.sh",
    "hooks": src.HOOKS,
    "engines": src.ENGINES,
    "checks": checks,
    "notes": src.NOTES,
    "not_applicable": [{"property_id": k, "reason": v} for k, v in sorted(src.NOT_APPLICABLE.items())],
}
ids = {json.loads(l)["id"] for l in open(os.path.join(ROOT, "properties.jsonl"))}
claimed = set(src.CHECKS); na = set(src.NOT_APPLICABLE)
assert claimed | na == ids, (ids - claimed - na, (claimed | na) - ids)
assert not (claimed & na)
json.dump(m, open(os.path.join(ROOT, "MANIFEST.json"), "w"), indent=1)
try:
    import jsonschema
    jsonschema.validate(m, json.load(open("/root/.vp/MANIFEST.schema.json")))
    print("MANIFEST.json valid;", len(checks), "checks,", len(na), "not applicable")
except ImportError:
    print("written (jsonschema not available for validation)")
