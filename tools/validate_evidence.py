#!/usr/bin/env python3
import json, sys, glob, jsonschema
sch = json.load(open("/root/.vp/EVIDENCE.schema.json"))
for f in sorted(glob.glob("/verif/evidence/*.json")):
    e = json.load(open(f))
    jsonschema.validate(e, sch)
    c = e["coverage"]
    print(f.split("/")[-1], "ok", e["tier"], "obl", c.get("obligations"), "dis", c.get("discharged"), "paths", c.get("evaluations"), "nontriv", c.get("distinct_nontrivial"), "wall", e["wall_s"], "viol", e.get("violations"))
