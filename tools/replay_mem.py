#!/usr/bin/env python3
"""Replay helper for C03 counterexamples on the REAL code: builds an expression on real Zarr arrays, runs every task of every
operation under tracemalloc (which sees NumPy buffers) and compares the traced peak with the operation's projected memory.
usage: replay_mem.py <case> [optimize]   (cases: see CASES)"""
import shutil, sys, tempfile, tracemalloc

import numpy as np
import zarr

import cubed
import cubed.array_api as xp
from cubed.core.plan import arrays_to_plan
from cubed.primitive.blockwise import apply_blockwise

N = 1_000_000


import os

COMPRESS = os.environ.get("REPLAY_COMPRESSOR", "none")  # "none" | "default" (default codec, incompressible random data)


def src(d, name, shape, chunks, dtype):
    if COMPRESS == "none":
        z = zarr.create_array(store=f"{d}/{name}.zarr", shape=shape, chunks=chunks, dtype=dtype, compressors=None)
        z[:] = np.ones(shape, dtype=dtype)
    else:
        z = zarr.create_array(store=f"{d}/{name}.zarr", shape=shape, chunks=chunks, dtype=dtype)
        rng = np.random.default_rng(0)
        z[:] = rng.integers(0, 255, size=int(np.prod(shape)) * np.dtype(dtype).itemsize, dtype=np.uint8).view(dtype).reshape(shape) if np.dtype(dtype).kind != "f" else rng.random(shape).astype(dtype)
    return z


CASES = {
    "var_f32_skinny": lambda a: xp.var(a("x", (4, N), (2, N), "float32"), axis=0),
    "var_f64_skinny": lambda a: xp.var(a("x", (4, N), (2, N), "float64"), axis=0),
    "var_f64_1row": lambda a: xp.var(a("x", (4, N), (1, N), "float64"), axis=0),
    "var_f32_1d": lambda a: xp.var(a("x", (4 * N,), (N,), "float32")),
    "mean_f32_skinny": lambda a: xp.mean(a("x", (4, N), (1, N), "float32"), axis=0),
    "argmax_axis0": lambda a: xp.argmax(a("x", (4, N), (2, N), "float64"), axis=0),
    "argmax_1d": lambda a: xp.argmax(a("x", (4 * N,), (N,), "float64")),
    "stride2_2d": lambda a: a("x", (8, N), (4, N), "float64")[::2, :],
    "stride_1d_13_7_2": lambda a: a("x", (13 * N // 4, ), (7 * N // 4,), "float64")[::2],
    "stride_1d_20_5_2": lambda a: a("x", (20 * N // 4, ), (5 * N // 4,), "float64")[::2],
    "stride_odd_chunks": lambda a: a("x", (13 * 250001,), (7 * 250001,), "float64")[::2],
    "roll": lambda a: xp.roll(a("x", (4 * N,), (N,), "float64"), 3),
    "add_astype_int8": lambda a: xp.add(xp.astype(a("x", (4 * N,), (N,), "float64"), xp.int8), xp.astype(a("y", (4 * N,), (N,), "float64"), xp.int8)),
    "sum_int8_skinny": lambda a: xp.sum(a("x", (4, N), (2, N), "int8"), axis=0),
    "negative": lambda a: xp.negative(a("x", (4 * N,), (N,), "float64")),
    "cumsum": lambda a: xp.cumulative_sum(a("x", (4 * N,), (N,), "float64")),
    "concat": lambda a: xp.concat([a("x", (3 * N,), (N,), "float64"), a("y", (3 * N,), (N,), "float64")]),
    "matmul": lambda a: xp.matmul(a("x", (2000, 2000), (1000, 1000), "float64"), a("y", (2000, 2000), (1000, 1000), "float64")),
}


def run(case, optimize):
    d = tempfile.mkdtemp(prefix="verif_c03_")
    worst = (0.0, None)
    try:
        spec = cubed.Spec(work_dir=d + "/w", allowed_mem=8_000_000_000, reserved_mem=0, **({"zarr_compressor": None} if COMPRESS == "none" else {}))
        arr = lambda name, shape, chunks, dtype: (src(d, name, shape, chunks, dtype), cubed.from_zarr(f"{d}/{name}.zarr", spec=spec))[1]
        y = CASES[case](arr)
        fp = arrays_to_plan(y)._finalize(optimize_graph=bool(optimize))
        import networkx as nx

        for nm in nx.topological_sort(fp.dag):
            dd = fp.dag.nodes[nm]
            if nm == "create-arrays":
                for a in dd["pipeline"].mappable:
                    a.create(mode="a")
            elif "primitive_op" in dd:
                op = dd["primitive_op"]
                peak_op = 0
                for coords in list(op.pipeline.mappable):
                    tracemalloc.start()
                    apply_blockwise(list(coords), config=op.pipeline.config)
                    _, peak = tracemalloc.get_traced_memory()
                    tracemalloc.stop()
                    peak_op = max(peak_op, peak)
                ratio = peak_op / op.projected_mem
                print(f"{case} optimize={optimize} {nm} {dd.get('op_display_name', '')!s:30.30} peak {peak_op/1e6:8.1f} MB projected {op.projected_mem/1e6:8.1f} MB ratio {ratio:.3f}")
                if ratio > worst[0] and op.projected_mem >= 1_000_000:  # tiny arrays: Python object overhead, not array data
                    worst = (ratio, nm)
    finally:
        shutil.rmtree(d, ignore_errors=True)
    return worst


if __name__ == "__main__":
    cases = sys.argv[1].split(",") if len(sys.argv) > 1 and sys.argv[1] != "all" else list(CASES)
    opt = int(sys.argv[2]) if len(sys.argv) > 2 else 0
    bad = 0
    for c in cases:
        w = run(c, opt)
        if w[0] > 1.0:
            bad += 1
            print(f"  -> {c}: EXCEEDS projection (ratio {w[0]:.3f} at {w[1]})")
    sys.exit(1 if bad else 0)
