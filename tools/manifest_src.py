BASELINE_CMD = "cd /repo && /venv/bin/python -m pytest -ra -q -p no:cacheprovider --timeout=900 --continue-on-collection-errors"
HOOKS = {
    "guard": "CUBED_VERIF",
    "enable": "no source hooks are needed: every harness re-instantiates / recompiles the functions under test from /repo's current source inside the check process (engine/loader.py); /repo is only touched by 'fix:' commits",
    "baseline_off_cmd": BASELINE_CMD,
    "source_commits": [],
    "add_only": True,
}
ENGINES = [
    {"name": "sx", "path": "/verif/engine/sx.py", "serves_properties": [], "kind_free_text": "own z3-backed re-execution (concolic, exhaustive DFS over branch decisions) engine running the real Python functions on integer/boolean proxies; every path re-validated concretely"},
]
NOTES = ("Solver-based checking of the real code: see DESIGN.md. Every check: ./check <ID> --tier quick|thorough. "
         "Exit 0 held / 1 VIOLATION / 3 HARNESS-ERROR. Known findings and repaired defects: known_findings.json.")

NOT_APPLICABLE = {
    "C10": "quantifier is over histories of API calls acting on a shared object graph (networkx plans, Zarr stores); no integer/bookkeeping kernel whose symbolic execution decides it, and choosing API calls by a symbolic integer would be enumeration of concrete runs (DESIGN.md §6)",
    "C16": "absence of side effects while building/planning over the whole API is a monitoring question with no symbolic input on which it depends (DESIGN.md §6)",
}
# properties not yet built are listed as not applicable *for now* with the reason "not built yet"; they move to CHECKS as they land
PENDING = ["C01","C02","C03","C04","C05","C06","C07","C09","C11","C12","C13","C14","C15","C17","C18","C19","C20"]

CHECKS = {
    "C08": {
        "engine": "sx",
        "technique": "bounded symbolic execution of the real async_map_unordered/retry wrapper with z3 (own engine sx): future outcomes, completion order and clock are solver variables",
        "text": "For every assignment of outcomes (running/ok/failed) to every pending future at every wake-up, every iteration order of simultaneously finished futures and every clock increment within the stated bounds (n<=3 inputs quick / <=4 thorough, bounded number of observations), the real async_map_unordered satisfies the retry/backup contract: no foreign exception, exactly one result per input on normal completion, an error only when no submission of that input succeeded or is still running, <=2 submissions per input; the tenacity retry wrapper makes min(k+1, retries+1) attempts and re-raises the last error. Decided by z3 over all paths, not sampled. Configurations with 0 and 1 inputs (with and without batching) are included.",
        "note": "asyncio.wait/Future/time replaced by the sched stubs (contract: any subset of pending futures completes per wake-up, non-decreasing clock); should_launch_backup min_tasks lowered to 1; integer times; schedules longer than the bound are outside the claim; lithops' own map_unordered and real I/O fault injection are outside.",
    },
}
CHECKS["C15"] = {
    "engine": "sx",
    "technique": "bounded symbolic execution (z3) of the real index-notation key-function compiler and of the real fusion code on provenance terms",
    "text": "(a) For every index pattern within the bound (<=2 args x <=2 dims x 2-3 symbols quick; up to 3 args / 3 dims / 4 symbols thorough), every block-count combination 1..3 with per-argument broadcast, new axes and every output coordinate, the key function returned by make_blockwise_back_key_function_flattened names exactly the blocks the index algebra designates (same array, argument position, coordinates; 0 on broadcast axes; explicit ValueError iff a contracted axis has several blocks). (b) For 14 fusion trees (depth 2-3) over key functions taken from the real operations (elementwise/broadcast/transpose via the index compiler; partial_reduce stream, stack alternating source, repeat and scan with block-id delivery, unstack multi-output: closures re-instantiated from the current code objects) the real fuse_blockwise_specs/fuse yield a spec whose evaluation on symbolic blocks equals the unfused evaluation, including list-vs-iterator structure. Decided by z3 on every path. Patterns in which the SAME array stands at two argument positions with different index tuples are included (variable `same`).",
    "note": "block functions are uninterpreted constructors; patterns with repeated symbols inside one index and literal arguments are outside; concat/index selection key functions are covered under C01/C02; fusion trees deeper than 3 outside.",
}
_GEOM_NOTE = ("NumPy's arithmetic on block values is an uninterpreted symbol (stubs/anp.py models only result shapes and index routing, validated against NumPy at check start); "
              "zarr's orthogonal indexer is replaced by a validated port (stubs/indexer_model.py) when its inputs are symbolic; leaf arrays are metadata stubs; <=2 dims, sizes within the stated bounds; "
              "executors, optimisation on/off, dtype casting tables are outside (C02/C06/C07).")
CHECKS["C01"] = {
    "engine": "sx",
    "technique": "bounded symbolic execution (z3) of the real construction path and real task bodies on abstract arrays: element provenance vs NumPy index maps",
    "text": "For 24 operation scenarios (elementwise incl. broadcasting and differently chunked inputs, sum/mean tree reductions, slicing with step, integer index, concat, stack, expand/squeeze, repeat, flip, cumulative_sum, roll, unstack, rechunk, permute_dims, broadcast_to, blocks view) the real cubed construction code runs on metadata-only arrays whose length, per-input chunk sizes and parameters are solver variables; the real plan is then evaluated on abstract blocks (real key functions, real map_nested, real block functions) and for a symbolic output element the provenance (which source elements, which argument position, which multiplicity for reductions) must equal NumPy's definition. Decided by z3 over all geometries within the bound (lengths <= 6 quick / 10 thorough), not sampled. Catalogue (quick): 50 scenarios incl. pad, diff/map_overlap, tile, where, moveaxis/3-d permutations, outer, vecdot, matmul, integer-array and integer+negative-step indexing, reshape over both axes and 1d->2d, tril/triu, max, concat/roll/flip/cumulative_sum along axis 1, arange with either step sign, store into an existing target. Second catalogue (harness/c01b.py): sums over other axes / all axes / keepdims, min over 2-d, nansum, nanmean, apply_gufunc with a core dimension and with broadcasting, 2-d rechunk under tight symbolic memory budgets (multi-stage plans, both planners: every element preserved), take along either axis, 2-d indexing with newaxis/ellipsis/steps, negative-axis expand_dims/squeeze, broadcast_arrays, matrix_transpose/.T/.mT, scalar and 0-d operands, clip with array bounds, cumulative_prod, diff of order 2 / with append / prepend, symmetric pad, tensordot values with chunked contraction, creation functions as leaves.",
    "note": _GEOM_NOTE,
}
CHECKS["C12"] = {
    "engine": "sx",
    "technique": "bounded symbolic execution (z3): one task of every operation of the real plan at a symbolic block coordinate; block shape vs write region, declared vs NumPy shape, backing-array metadata",
    "text": "For the C01 catalogue plus qr, reshape, matmul, argmax (axis of either sign), tensordot (contracted axes in either order), arange (step of either sign), store into an existing target, widening reductions over 2-d chunks: declared shape equals NumPy's and the sum of the declared chunks; the lazy Zarr array is created with the declared shape/dtype/grid; and for EVERY operation of the plan (intermediate, fused-away candidates, every output of multi-output ops) the block the real function returns for the blocks the real key function selects has exactly the extent of the region key_to_slices computes - for all geometries and all block coordinates within the bound.",
    "note": _GEOM_NOTE + " dtype truthfulness beyond 'backing array dtype == declared dtype' is a finite casting table and is outside.",
}
CHECKS["C17"] = {
    "engine": "sx",
    "technique": "bounded symbolic execution (z3) of the real construction path and one task per operation: type and phase of every reachable exception",
    "text": "For the same catalogue and all geometries within the bound: an exception escaping construction is a ValueError/TypeError/NotImplementedError/IndexError (any other type, e.g. AssertionError or KeyError, is a violation), and a construction that succeeds yields operations whose key function and block function raise for no block coordinate, whose keys name existing blocks and whose blocks fit their regions. (scan's internal assertion, once a known finding, is repaired: /repo b0402de).",
    "note": _GEOM_NOTE + " Data-dependent failures inside NumPy and executor/storage faults are outside.",
}
CHECKS["C05"] = {
    "engine": "sx",
    "technique": "bounded symbolic execution (z3) of the real rechunk/store construction: per-dimension grid lemma (task-grid boundaries are storage-grid boundaries) over the real plan",
    "text": "For rechunk (regular and irregular intermediate grids, every memory budget that changes the copy chunks), store into existing arrays with their own chunking, sharded targets, region stores, to_zarr to a path and catalogue operations, with symbolic shape/chunk sizes/budget/region: every boundary of an operation's task (write) grid is a boundary of the storage grid of the array it writes (regular or rectilinear), the storage grid tiles the array, and the task iterable enumerates each write cell exactly once -- hence each stored chunk has one writer that writes it whole. ChunkKeys.range equals the slice of itertools.product. Sharded targets with inner chunks smaller than the shard: the shard grid is the storage grid (whole stores and region stores). Stores with the all-open region (slice(None),).",
    "note": _GEOM_NOTE + " Single-stage rechunk plans (min_mem=1) in quick; 2-D rechunks in the thorough tier; multi-stage plans under C14. Atomicity of one key write is the storage contract.",
}
CHECKS["C11"] = {
    "engine": "sx",
    "technique": "bounded symbolic execution (z3) of real store/_store_array/to_zarr construction and tasks on abstract blocks: per-element provenance vs region semantics",
    "text": "For stores into existing targets (any chunking), sharded targets, paths and regions with symbolic geometry: a target element inside the region receives source element (e - region.start), an element outside the region is written by no task, blocks fit their write regions, misaligned or wrongly shaped regions and mismatched source/target/region lists are rejected with ValueError at build time (iff they are invalid). Regions with fewer slices than dimensions, with negative or open bounds or with a step are either refused at build time or filled exactly as NumPy's slice assignment would.",
    "note": _GEOM_NOTE + " The aliasing side of store (one lazy source stored to several targets; eager vs lazy histories) has no symbolic domain and is outside the claim (DESIGN.md C10/C11).",
}
CHECKS["C13"] = {
    "engine": "sx",
    "technique": "bounded symbolic execution (z3): real construction + real finalization/optimizer on symbolic geometry (task counts); real executor loops on scheduler stubs with symbolic completion orders (events)",
    "text": "(a) For every operation of the real finalized plans (optimize on and off) of rechunks, stores (existing/sharded/region/path), multi-output ops and catalogue operations, num_tasks equals the length of the task iterable, tasks are distinct, the plan total is the sum and create-arrays creates each lazy array once. (b) see C07 harness: per operation one start, num_tasks task-ends, one end, in order, for every schedule in the bound.",
    "note": _GEOM_NOTE + " Event part uses stubs/sched.py (asyncio.wait/Future/aiostream contracts).",
}
CHECKS["C14"] = {
    "engine": "sx",
    "technique": "bounded symbolic execution (z3) of the real rechunk planner functions on integer proxies (exact rational model of true division)",
    "text": "consolidate_chunks (1-2 dims quick, 3 thorough; sizes up to 10**6, budgets up to 2**40; chunk_limits None/-1/explicit): ValueError iff the chunks exceed max_mem, otherwise result within [chunks, upper bound], aligned with the source chunks, within max_mem, and no AssertionError. Both multistage planners: explicit ValueError iff the request is infeasible, otherwise a non-empty chained stage list whose every read/intermediate/write chunk fits max_mem, intermediate = min(read, write), last write chunks a multiple of the target chunks (or the full extent), regular variant aligned with what the previous stage wrote - 1-d fully symbolic (sizes <= 200/1000), 2-d incl. reachable multi-stage plans with geometry forked by value and symbolic budgets. rechunk_plan/_rechunk_plan/rechunk on metadata arrays: copy ops start at the array's chunking, are chained, end at the requested chunking; data part of every accepted copy fits the derived budget. Termination: AST side condition (no while loops, finite for-loops, single guarded recursion) + per-path step budget. The rechunked array (and the Zarr grid backing it) has exactly the requested chunks, every chunk of it.",
    "note": "int/int true division modelled as exact rationals (lemma: operands < 2**53); np.geomspace = real NumPy on value-forked endpoints; 2-d obligations fork geometry by value because products of two symbolic extents did not finish in z3 (>600 s); >3 dims, ExcessiveIOWarning heuristics and multspace's docstring claim (multspace(40,40,2) == [1,39], an efficiency glitch recorded in DESIGN.md) are outside.",
}
CHECKS["C07"] = {
    "engine": "sx",
    "technique": "bounded symbolic execution (z3) of the real async_map_dag/async_map_unordered/DAG traversal on scheduler stubs: completion subsets, interleavings and clock are solver variables; barrier asserted over the event trace",
    "text": "For real finalized plans (chain with unequal task counts, diamond, independent branches, multi-output op, implicit rechunk; optimize on/off) and every schedule within the bound (which pending futures complete at each wake-up, in which order they are seen, which generation-mate is polled next, clock increments; compute_arrays_in_parallel on/off, batch_size None/1/2, backups on/off): every task is submitted only after a successful completion of every task of every operation producing its inputs and of every create-arrays task, and an operation's stream ends only when all its tasks completed. SingleThreadedExecutor.execute_dag: same, for every subset of operations marked computed. Also on DAGs flagged the way FinalizedPlan.execute(resume=True) flags them (array nodes flagged, every subset of operations flagged computed): the barrier holds among the operations left to run; the barrier is checked at every submission. Executor wiring: the real ThreadsExecutor / ProcessesExecutor entry (_async_execute_dag, threads_/processes_create_futures_func, unpickle_and_call after a real cloudpickle round trip) on the same plans with only the worker pool replaced: every submission carries the function, config and an input of ONE operation of the plan, a stage call failing k times is attempted min(k+1, retries+1) times (threads), and barrier and event order hold for every schedule and every compute_arrays_in_parallel / batch_size / retries setting in the bound.",
    "note": "asyncio.wait/Future/time/aiostream replaced by stubs/sched.py (validated against a real event loop at check start); schedules with more than the stated number of 'still running' observations and task failures (C08) are outside; a task is taken to read its inputs between submit and complete.",
}
CHECKS["C04"] = {
    "engine": "sx",
    "technique": "bounded symbolic execution (z3) of real finalization/validation/execute entry and real optimizers on real plans with symbolic per-operation memory",
    "text": "For real plans (chain, diamond, two computed inputs, repeated argument, reduction chain, multi-output, mixed levels) whose per-operation projected memory, result-chunk memory and allowed memory are solver variables: execute() raises ValueError iff some operation of the final plan has projected > allowed (== admitted, +1 refused), and on the refusal path the executor, every callback and every array create/open were never called; fused operations (multiple-input optimizer with default and symbolic fan-in limits, legacy map-fusion optimizer, fuse-all) report at least the projected memory of every operation they replaced; the default optimizers never turn a plan whose operations all fit into one that does not; peak_projected_mem equals the reference recurrence.",
    "note": "memory values 0..40 (linear comparisons); ops' projected memory assumed >= result-chunk memory; side effects inside third-party executors outside.",
}
CHECKS["C09"] = {
    "engine": "sx",
    "technique": "bounded symbolic execution (z3) of the real resume logic on real finalized plans with symbolic store state per produced array",
    "text": "For real finalized plans (fused/unfused, multi-output, reduction chains) and EVERY store state of every produced array (absent, completeness attribute missing, zero-dimensional, nchunks_initialized anywhere in [0, nchunks] - an over-approximation of every crash point at task and chunk-write granularity): an operation is skipped iff all its outputs are complete and not 0-d, create-arrays is never skipped, executed operations come in dependency order (both traversals agree), every executed operation reads only complete arrays or arrays whose producer runs earlier, a store that cannot report completeness is refused with NotImplementedError before the executor is entered (or never trusted), without resume nothing is skipped; array creation is open-or-create, never truncating.",
    "note": "store-state stub is the contract of the property; what Zarr reports for a half-written key and equality of values (C06) are outside.",
}
CHECKS["C02"] = {
    "engine": "sx",
    "technique": "bounded symbolic execution (z3): real construction, real DAG rewrite by every optimizer, evaluation of original and optimized real plans on abstract blocks; provenance equality",
    "text": "For 15 compositions (chains, diamonds, repeated arguments, reductions over/under elementwise ops, mean, selections, concat/stack/unstack/repeat between elementwise ops, implicitly rechunked inputs, requested and shared intermediates) with symbolic geometry and for the default multiple-input optimizer (also with symbolic max_total_source_arrays / max_total_num_input_blocks incl. None), the legacy map-fusion optimizer, fuse-all and fuse-only: every element of every requested array has the same provenance (same source elements, argument positions, multiplicities) in the optimized real plan as in the unoptimized one; every requested array still has a producing operation; each operation's source_array_names equal its DAG predecessors and are readable. Compositions include streaming predecessors (reductions, concat) used for two arguments of one consumer; an exception raised by the optimized plan where the unoptimized plan produced the element is a violation.",
    "note": _GEOM_NOTE + " Compositions beyond the catalogue and store targets (C11) are outside; that the fused closure pickles is outside.",
}
CHECKS["C18"] = {
    "engine": "sx+z3",
    "technique": "symbolic execution (z3) of convert_to_bytes on integers and of every discovered two-array entry point with symbolic Spec fields; QF_FP search generated from the function's AST whenever the string path multiplies floats",
    "text": "(i) convert_to_bytes: every integer in [-1e30, 1e30] is returned unchanged or rejected iff negative; the unit table read off the current AST is decimal SI; rendered literals (integer part 0..120, fraction digits, 13 valid/invalid unit forms, whitespace) and literals just above 2**53 and 10**16 are interpreted exactly or rejected; if the string path goes through float arithmetic, a QF_FP query searches for an accepted-but-rounded literal (and proves exactness below 2**53). (ii) each of the 47 discovered two-array entry points (elementwise binaries, where, clip, concat, stack, matmul, tensordot, vecdot, isin, searchsorted, map_blocks, apply_gufunc, outer, operators, plan, store) rejects operands whose Specs differ in exactly one field (symbolic allowed_mem/reserved_mem, work_dir, compressor, executor, storage_options) with the spec ValueError unless no returned plan contains both operands, and accepts equal Specs; (iii) every operation built carries the Spec's allowed_mem and reserved_mem.",
    "note": "entry points are discovered by calling the public API on metadata arrays; index arguments that are computed eagerly (take, x[array]) are exempt by the statement; intermediate_store objects outside. CrossHair was tried for string literals and is not used: its float() model raised an internal regex error (recorded in DESIGN.md).",
}
CHECKS["C19"] = {
    "engine": "sx",
    "technique": "symbolic execution (z3) of every discovered public entry point on metadata arrays under an explicit Spec with symbolic memory settings versus the default configuration",
    "text": "For 80 one-array and 47 two-array public entry points and 14 calls that mix a cubed operand with a numpy array or Python scalar in every position (map_blocks, apply_gufunc, where, maximum, clip, reflected operators): built under an explicit Spec (symbolic allowed_mem/reserved_mem with allowed-reserved >= 1e5; work_dir none/local/cloud; compressor auto/none; executor set) the expression is accepted exactly as under the default configuration (no helper array created without the operands' spec), records the same operation geometry (write chunks, task counts, fusability, shapes, chunks, dtypes), results carry the explicit Spec and every operation uses its allowed_mem/reserved_mem with projected memory including reserved memory; only a cloud work_dir changes the buffer-copy model.",
    "note": "value equality across real stores/codecs is outside (C01 decides values for the recorded geometry); take() (eager index evaluation) is exempt.",
}
CHECKS["C20"] = {
    "engine": "sx",
    "technique": "symbolic execution (z3) of the real name generators and of the real plan merge with symbolic process states; counterexamples replayed through real cloudpickle in two processes",
    "text": "Name identity part: the three gensym functions give names that determine the counter (injective formatting incl. the 999->1000 width change) and increase by one; an array built in a process that had built k1 arrays, shipped and combined with an array built in a process that had built k2 arrays (k1, k2 symbolic), must keep its identity in the merged real plan (distinct array and operation names, provenance of the result names both operands). On the current tree this FAILS whenever the counters coincide: listed as a known finding (reproduced through the public API with real cloudpickle in two processes); any other violation still fails the check. A shipped array that is planned/finalized ON ITS OWN after the receiving process finalized a same-named array of its own must get its own plan (own storage, own source, own operation).",
    "note": "a second process is modelled by fresh values of the module-level name counters, advanced by really building arrays; cloudpickle fidelity and value equality after a round trip are outside (exercised only in the replay).",
}
CHECKS["C06"] = {
    "engine": "sx",
    "technique": "bounded symbolic execution (z3) of the real task body (apply_blockwise) on recording arrays and of the real per-block RNG seeding with a symbolic 128-bit root seed",
    "text": "(i) For the operation catalogue with symbolic geometry and a symbolic block coordinate, the real apply_blockwise run twice issues the same reads and writes (a function of (coordinates, config) only), writes each output array exactly once, into the region of its own block coordinates and inside the array, and never reads an array it writes; with C05's disjointness of task regions this yields order/repetition/placement independence of the stored values (stated argument). (iii) random(): the Philox key of a block is valid for every 128-bit root seed, identical on re-execution of the block and distinct for distinct blocks. (iv) an array that was computed and is then stored with the real store() (which re-targets the operation's write proxy): the task executed afterwards writes the new target, nothing cached by the earlier execution redirects it.",
    "note": _GEOM_NOTE + " Determinism of NumPy functions, cloudpickle round trips and third-party process-global state are outside; 'after downstream operations ran' needs C07. Also decided: the real create-arrays task (create_zarr_array -> LazyZarrArray.create -> open_zarr_v3_array) on stubs/zarr_model.py (validated against the installed zarr on 120 operation x pre-state combinations) from every pre-state of the store (existence/written flags are solver variables), re-run after downstream writes: open-or-create, never truncate, for plain and structured dtypes.",
}
CHECKS["C03"] = {
    "engine": "sx",
    "technique": "bounded symbolic execution (z3) of the memory formula, of what the real op construction feeds into it, and of the real task body on ledger-tracked abstract arrays (allocation model)",
    "text": "(A) calculate_projected_mem equals reserved + sum(in*(1+read copies)) + extra + out*(1+write copies) for symbolic sizes/copies and is monotone; for the operation catalogue with symbolic geometry the real construction projects at least reserved + 2x the chunk memory of EVERY input + 2x the largest output chunk. (B) the real apply_blockwise runs one task of every operation (unfused, and fused by the real default optimizer) at a symbolic block coordinate on abstract arrays that register their bytes in a ledger on creation and release them when CPython frees them; reads/writes add the documented transient copies; at every allocation point reserved + live bytes <= projected_mem. Known finding (confirmed with tracemalloc on the real code): fused operations with a lazily consuming successor under-project.",
    "note": "decided against an ALLOCATION MODEL (stubs/anp.py: which NumPy functions allocate, which return views, NumPy result dtypes, temporary elision, CPython reference counting of the blocks; validated for shapes against NumPy; its byte counts reproduce tracemalloc on the real code for the recorded findings), not against the real allocator: LAPACK work buffers, codec internals (zarr-python 3 holds two read copies for compressed chunks where the memory model assumes one), interpreter overhead are outside; 2-d geometry only for reductions over axis 0 with chunks of 1-2 rows; a change that only consumes slack of a declaration is (correctly) not reported. Known findings (fused operations, var/std) are listed in known_findings.json.",
}
for p in PENDING:
    if p not in CHECKS:
        NOT_APPLICABLE[p] = "check not built yet in this revision (planned, see DESIGN.md §5)"
