#!/usr/bin/env python3
"""writes seeded/<id>/meta.json from the table below and the confirm.log left by tools/seed_eval.sh"""
import json, os, re, sys
ROOT = "/verif/seeded"
TABLE = {
 "C08-a": ("C08", "backup launch records the backup's start time under the ORIGINAL task's key: needs use_backups + batch_size < n + a backup that wins, then a later should_launch_backup call -> KeyError although every input succeeded"),
 "C11-a": ("C11", "region-alignment exemption widened from 'stop == axis end' to 'stop lies in the last chunk': needs a target whose trailing partial chunk has >= 2 elements and a region stopping strictly inside it -> source block broadcast over the whole target block (writes outside the region) or mid-run failure"),
 "C13-a": ("C13", "twin of a delivered task is marked superseded only when still pending: needs backups on, a backup launched and original+backup finishing in the SAME asyncio.wait round -> one extra task-end event (also violates C08: input delivered twice)"),
 "C07-a": ("C07", "launched backup future is never added to `pending` (pending.add(task) instead of new_task): needs backups on, a backup launched, the original then FAILS while the backup is still running and everything else done -> the operation's stream ends and the consumer starts before the backup has written the chunk (also C08)"),
 "C15-a": ("C15", "fused key function of a LIST argument looks up the predecessor key function once, from the first list element: needs fusion + a successor whose key function returns a Python list mixing blocks of differently derived arrays -> the second element reads the wrong array"),
 "C14-a": ("C14", "regular multi-stage planner aligns read chunks with the FINAL write chunks instead of the first intermediate stage: needs allow_irregular=False, a >= 2-stage plan and a consolidated read chunk that is not a multiple of the first stage chunk (e.g. 53 vs 7) -> first copy's tasks straddle stored chunks (also C05)"),
 "C05-a": ("C05", "same source change as C14-a, found independently: multi-stage regular rechunk whose first copy chunks are not aligned with the intermediate store's chunks -> two tasks write the same stored chunk"),
 "C01-a": ("C01", "stack() keeps a reference to the first input taken BEFORE unify_chunks: needs inputs chunked differently from each other with the first one coarser -> output chunk grid does not match the blocks read: broadcast of size-1 blocks gives silently wrong values, otherwise a mid-run broadcast error (also C12, C17)"),
 "C09-a": ("C09", "already_computed returns True after checking the FIRST output array of an operation: needs resume=True, a multi-output operation (or an operation whose first listed output is complete while another one is not) -> the operation is skipped although one of its outputs is incomplete"),
 "C17-a": ("C17", "qr's row-chunk precondition compares only the nominal chunk size with the column count: needs a last (shorter) row chunk with fewer rows than columns -> accepted, then fails inside a task / writes a mis-shaped R block (also C12)"),
 "C18-a": ("C18", "convert_to_bytes: `if isinstance(size, float)` turned into `elif`: needs a STRING memory setting whose exact value is not an integer number of bytes (e.g. '1.5B', '0.3kB') -> the non-integer float is no longer refused / rounded as documented"),
 "C02-a": ("C02", "the 'predecessor produces an array being computed' fusion veto is moved after the always_fuse shortcut: needs always_fuse naming an op whose predecessor's output is itself requested in the same compute -> the requested array is fused away and never written"),
 "C04-a": ("C04", "peak_projected_mem stops at the first unfusable (None) predecessor instead of skipping it: needs multiple-input fusion where a non-fused predecessor precedes fused ones in argument order -> the fused op's projected memory omits the later predecessors and a plan over the limit is admitted"),
 "C20-a": ("C20", "arrays_to_dag compares each array's merged node target with its own storage and raises: needs two arrays with the same generated name from different processes -> refused with ValueError instead of silently aliasing; breaks the same-process-clone case (equal names, equal storage objects compare unequal after pickling)"),
 "C12-a": ("C12", "tensordot normalises the contracted axes by sorting them: needs axes given in DESCENDING order for one operand (e.g. axes=([2,1],[0,1])) -> contraction pairs the wrong dimensions; the declared shape differs from the blocks written, which are silently broadcast/truncated"),
 "C19-a": ("C19", "map_blocks takes the spec for coercing non-cubed arguments from args[0] only: needs a NON-cubed first argument (numpy array / scalar) followed by a cubed array that carries an explicit Spec -> 'Arrays must have same spec' although the same call is accepted under the default configuration"),
 "C06-a": ("C06", "structured-dtype arrays are created with group.create_array(overwrite=mode != 'w-'): needs a structured intermediate (mean/argmax/var, unfused) and a create-arrays task re-executed after a downstream task wrote chunks -> the chunks are deleted, results become NaN/0 without any error"),
 "C03-a": ("C03", "partial_reduce sizes the reduced chunks of its extra_projected_mem with the INPUT dtype: needs a widening reduction (mean/var of float32, sum of int32/int8) over chunks that are skinny along the reduced axis (1-2 rows, long kept axis) -> the first partial reduce is projected ~10-30% below its real peak. NOTE: written against the tree before fix 6b9de17, which changes the same line; patch_rebased.diff is the same change on the repaired tree"),
 "C07-b": ("C07", "visit_node_generations drops nodes flagged computed before grouping into topological generations: needs resume=True (which flags every array node) + compute_arrays_in_parallel=True on threads/processes + at least two dependent operations left to run -> all remaining operations and create-arrays fall into one generation and run as one merged stream; a consumer reads fill values"),
 "C13-b": ("C13", "region store keeps `source` un-rechunked for num_tasks (`aligned = source.rechunk(chunks)` with one use not renamed): needs a region store whose source chunking differs from the target's (one oversized source chunk, or source chunks a multiple of the target chunks) -> advertised num_tasks counts the source's blocks, the task list enumerates the target's"),
 "C09-b": ("C09", "already_computed `continue`s for 0-d targets instead of treating them as incomplete: needs resume=True, an operation whose outputs are all 0-d (last step of sum) and a crash after the array was created but before its chunk was written -> the op is skipped and the empty 0-d array is trusted (sum == 0.0)"),
 "C18-b": ("C18", "Spec.__eq__ no longer compares reserved_mem: needs two Specs that differ ONLY in reserved_mem -> every multi-array entry point combines them silently and the plan runs under arrays[0]'s budget"),
 "C17-b": ("C17", "to_chunksize's regularity check inlined without the 'last chunk larger than the first' clause: needs chunk arithmetic yielding a layout like (2,3) / (1,1,3) (reshape merging an odd leading axis with >= 2 trailing chunks, reshape splitting (6,)/(3,) to (3,2), blocks[[3,0]]) -> accepted instead of refused; a stored chunk is never written (silent zeros) or a task fails with IndexError"),
 "C14-b": ("C14", "_rechunk_plan skips the final copy when the intermediate chunks equal the target chunks: needs allow_irregular=True (default), memory too tight to consolidate writes and a source chunk that is not a multiple of the target chunk -> the result keeps a rectilinear grid (70,30,40,60,..) instead of the requested chunks; caught by the repository's own hypothesis test, which the pinned deterministic run excludes"),
 "C04-b": ("C04", "can_fuse_multiple_primitive_ops de-duplicates repeated predecessor ops before computing the peak for the fusion veto while fuse_multiple still composes the projection from the full list: needs one intermediate feeding two arguments of the next op (multiply(b, b)) and allowed_mem in a narrow window -> the default optimizer turns a fitting plan into a refused one"),
 "C01-b": ("C01", "permute_dims passes the index tuples to blockwise the other way round (output labelled range(ndim), input labelled axes) while the block function still applies `axes`: needs >= 3 dims and a permutation that is not its own inverse ((1,2,0), moveaxis(x,0,-1) on 3-d, vecdot(axis=0) on 3-d) -> wrong values / wrong shape, mostly silently (Zarr truncates oversized edge blocks)"),
 "C02-b": ("C02", "make_fused_back_key_function memoizes each predecessor key function for the duration of one task (functools.cache): needs a fused consumer that asks the SAME predecessor chunk twice (repeated argument) where that predecessor's key function returns an iterator (reduction, concat) -> both arguments share one drained iterator: AxisError for reductions, silently wrong values for concat"),
 "C11-b": ("C11", "region store skips the source rechunk when the source chunks are a whole multiple of the target's ('already line up'): needs a region store whose source chunk is a larger multiple of the target chunk (incl. single-block sources and sharded targets) -> tasks enumerated over target blocks read non-existent / wrong source blocks: silent corruption (truncated oversized blocks) or IndexError mid-run"),
 "C08-c": ("C08", "failure path of async_map_unordered pops the failed task's pairing entry (backups.pop instead of .get): needs backups on, a straggler whose twin fails while the other twin is still running and then succeeds (or both finishing in one wake-up with the failing twin first) -> the clean-up `del backups[...]` raises KeyError although every input had a successful attempt"),
 "C05-c": ("C05", "the alignment rechunk before storing into an existing target is skipped whenever a region is given ('the region branch aligns below'): needs a region made only of slice(None) (which takes the non-region branch) and source chunks that are not a multiple of the target's -> several tasks write the same stored chunk"),
 "C15-c": ("C15", "make_blockwise_back_key_function keeps each argument's coordinate map in a dict keyed by ARRAY NAME: needs the same array at two argument positions with different index tuples (matmul(a, a), outer(v, v), tensordot(a, a)) and more than one block -> the earlier position is addressed with the later position's map"),
 "C19-c": ("C19", "broadcast_to builds its template with empty_virtual_array without spec=x.spec: needs an explicit Spec different from the default config and an operation that really broadcasts through broadcast_to (broadcast_to, broadcast_arrays, meshgrid, vecdot with batch broadcasting) -> 'Arrays must have same spec'"),
 "C12-c": ("C12", "_repeat cuts its block in steps of the INPUT block length instead of the chunk size: needs a repeated axis whose length is not a multiple of the chunk size (partial last input chunk) -> blocks of the wrong length are written: broadcast silently (length 1), ValueError at compute, or truncated"),
 "C06-c": ("C06", "CubedArrayProxy.open() caches the opened array per proxy (dropped on pickling): needs an array that was computed in the client process and is then stored (to_zarr / store re-target the same proxy) with an in-process executor -> tasks write through the stale handle into the old intermediate array; the user's target keeps fill values; the processes executor is unaffected"),
 "C03-c": ("C03", "_rechunk sizes its extra_projected_mem from the largest TARGET chunk instead of the copy region: needs a rechunk whose copy region spans several store chunks (consolidated writes), a split along the last axis, the default compressor and Zarr's concurrent chunk encoding -> ~108 MB traced vs 99 MB projected; with compressor none or async.concurrency=1 there is no excess"),
 "C20-c": ("C20", "Plan gets value equality (output names + node names) so that the lru_cache on _finalize hits, plus a cache_clear in _store_array: needs an array built in another process (fresh counters, so identical generated names), shipped in and finalized/computed ON ITS OWN after the receiving process has finalized its own same-named array -> the local array's cached finalized plan is executed: ArrayNotFoundError or, with a shared intermediate store, the local array's values"),
 "C04-c": ("C04", "Plan._finalize runs the admission check on the PRE-optimization DAG: needs an optimizer that bypasses the fusion veto (fuse_all / always_fuse), a fan-in of >= 2 fused predecessors and allowed_mem between the largest unfused op and the fused peak -> an over-budget fused plan is executed"),
 "C13-c": ("C13", "fuse_multiple advertises the largest num_tasks of the ops it was fused from: needs the default optimizer fusing an op that reads several blocks per task (reduction combine step) with a predecessor that has more tasks -> advertised count exceeds the tasks run and the events delivered"),
 "C02-c": ("C02", "the two-op fuse() takes its task iterable from the FIRST op: needs simple_optimize_dag and a consumer with the same number of tasks but other block coordinates (transpose of a non-square block grid, expand_dims, region store at an offset) -> IndexError / unwritten blocks"),
 "C11-c": ("C11", "region store computes the source-block offset in units of target.chunks instead of the (shard-sized) task chunks: needs a sharded target whose shards differ from its inner chunks and a region starting at a non-zero offset -> wrong/negative source blocks: late error after misplaced data was written"),
 "C09-c": ("C09", "resume flags are assigned from the outputs backwards and every ancestor of a complete op is marked computed without looking at storage: needs a resumed plan that materialises an array which the earlier (optimized) run had fused away -> that array is created empty and trusted"),
 "C01-c": ("C01", "meshgrid reverses ALL axes for indexing='xy' instead of swapping the first two: needs three or more coordinate arrays with 'xy' -> transposed shapes / wrong values"),
 "C17-c": ("C17", "the 'dropped axis must be a single chunk' check of make_blockwise_back_key_function only looks at the first array argument: needs map_blocks/blockwise with several arrays and drop_axis where a LATER argument has several chunks along the dropped axis -> accepted, then a task gets one block per chunk (TypeError mid-run or silently something else)"),
 "C14-c": ("C14", "the irregular planner rounds consolidated read chunks up to whole source chunks, checking memory per axis: needs two or more axes on which the read chunk reaches the write-chunk limit (below the axis length), write chunks not multiples of the source chunks, and headroom enough for each rounding alone but not for their product -> first copy chunk exceeds max_mem"),
 "C05-d": ("C05", "_store_array's shard-mismatch test rewritten as a divisibility test the wrong way round (rechunk only if the shards are NOT a multiple of the source chunks): needs an existing sharded target, source chunks that are a proper divisor of the shards, no region -> several tasks read-modify-write one shard; concurrent tasks lose each other's inner chunks"),
 "C08-d": ("C08", "ThreadsExecutor._async_execute_dag reads its options with `kwargs.pop(name, None) or default`: needs retries=0 reaching the real executor entry (executor option or compute kwarg) and a fault on a task's first attempt -> the task is retried (up to 3 attempts) although the budget allows one; an error that should surface is dropped"),
 "C06-d": ("C06", "_random keeps one Generator(Philox()) per thread and re-keys it through the bit generator's state dictionary (key, counter, buffer_pos) without clearing the cached 32-bit half (has_uint32/uinteger): needs float32 random blocks with an ODD number of elements followed by another float32 block on the same worker, compared with another schedule (fresh process, other order, repetition) -> different values for the same block"),
 "C15-d": ("C15", "the list/stream branch of apply_blockwise_key_func returns the predecessor key function's FunctionArgs without re-labelling it with the array name: needs a predecessor made by the two-op fuse() (which labelled with the fused-away intermediate array until fix 1edd166) fused again under a list/stream reader (simple_optimize_dag then multiple_inputs_optimize_dag + sum/concat) -> the fused function is skipped, raw blocks are passed. On the repaired tree the change is harmless"),
 "C07-d": ("C07", "already_computed returns the verdict of the FIRST output only ('outputs are complete together'): needs a multi-output operation, an earlier run that died between the two chunk writes of one task, resume=True and a consumer of the later output -> the producer is skipped and the consumer reads fill values (same mechanism as C09-a, found independently for C07)"),
 "C19-d": ("C19", "check_array_specs compares the operands' Specs by identity instead of equality ('arrays in a computation share one Spec object'): needs two operands whose Specs are equal but distinct objects (a Spec constructed afresh per creation call, a default-configuration leaf combined with an explicit Spec equal to the configuration, default leaves created across raise_if_computes()) -> 'Arrays must have same spec' although the same settings through one object are accepted"),
 "C12-d": ("C12", "_partial_reduce skips reduce_func when initial_func is given ('already reduced'): needs a reduction whose `func` is a pre-processing map rather than a reduction (cubed.core.reduction(x, square, combine_func=sum)) and a group of exactly one block with extent > 1 on the reduced axis (numblocks % split_every == 1) -> the task writes an un-reduced block into a size-1 region; zarr truncates it silently"),
}
# seeds that were re-evaluated after strengthening: confirm.log holds the LATER run; what the first evaluation gave is recorded here
FIRST = {
 "C07-b": {"C07": {"exit": 0, "violation_lines": 0}},
 "C14-b": {"C14": {"exit": 0, "violation_lines": 0}},
 "C01-b": {"C01": {"exit": 0, "violation_lines": 0}},
 "C02-b": {"C02": {"exit": 0, "violation_lines": 0}},
 "C17-b": {"C17": {"exit": 0, "violation_lines": 0}, "C12": {"exit": 0, "violation_lines": 0}},
 "C05-c": {"C05": {"exit": 0, "violation_lines": 0}},
 "C17-c": {"C17": "exit 1, but only with lines of the known scan finding in a new obligation (not the seed)", "C15": {"exit": 1, "violation_lines": 48}},
 "C02-c": {"C02": {"exit": 0, "violation_lines": 0}},
 "C11-c": {"C11": {"exit": 0, "violation_lines": 0}, "C05": {"exit": 0, "violation_lines": 0}},
 "C01-c": {"C01": {"exit": 0, "violation_lines": 0}},
 "C14-c": {"C14": {"exit": 0, "violation_lines": 0, "inconclusive": 1}},
 "C20-c": {"C20": {"exit": 0, "violation_lines": 0}},
 "C06-c": {"C06": {"exit": 0, "violation_lines": 0}},
 "C06-d": {"C06": "exit 3 (harness-error: the key-recording RNG stub met `SInt >> int` in the seeded code; no VIOLATION line) -- a broken check, not a detection"},
 "C19-d": {"C19": {"exit": 0, "violation_lines": 0}, "C18": {"exit": 1, "violation_lines": 92}},
 "C07-d": {"C07": {"exit": 0, "violation_lines": 0, "inconclusive": 1}, "C09": {"exit": 1, "violation_lines": 19}},
 "C15-d": {"C15": "not run before strengthening (no fusion tree had a predecessor made by the two-op fuse(): miss by inspection)"},
 "C12-d": {"C12": "not run before strengthening (no scenario passes a user reduction whose func is a map: miss by inspection)"},
 "C15-c": {"C15": "not run before strengthening (the report named the blind spot: patterns used distinct array names; miss by construction)"},
 "C12-a": {"C12": "not run before strengthening (no scenario could reach the change: miss by inspection)"},
 "C19-a": {"C19": "not run before strengthening (miss by inspection)"},
 "C06-a": {"C06": "not run before strengthening (miss by inspection)"},
}
for sid, (prop, needs) in TABLE.items():
    d = os.path.join(ROOT, sid)
    if not os.path.isdir(d):
        continue
    log = open(os.path.join(d, "confirm.log")).read() if os.path.exists(os.path.join(d, "confirm.log")) else ""
    checks = {}
    for m in re.finditer(r"check (C\d+): exit (\d+); (\d+) VIOLATION", log):
        checks[m.group(1)] = {"exit": int(m.group(2)), "violation_lines": int(m.group(3))}
    extra = {}
    p = os.path.join(d, "later_checks.json")
    if os.path.exists(p):
        extra = json.load(open(p))
    meta = {
        "seed": sid, "breaks_property": prop, "needs_to_manifest": needs,
        "origin": "written by an independent sub-agent that saw only the property text and its own scratch worktree",
        "confirmed": {"demo_without_change_exit": 0 if "demo without change: exit 0" in log else None,
                      "demo_with_change_exit_nonzero": bool(re.search(r"demo with change: exit [1-9]", log)),
                      "how": "tools/seed_eval.sh: fresh scratch worktree of /repo HEAD, demo run without and with patch.diff applied; then quick checks run against the changed code ("
                             + ("a scratch worktree put first on PYTHONPATH, because /repo was in use by long runs" if "scratch worktree" in log else "patch applied to /repo, /repo restored with git checkout -- .") + ")"},
        "checks_run_at_first_evaluation": FIRST.get(sid, checks),
        "checks_in_confirm_log": checks,
        "checks_run_after_strengthening": extra,
        "files": sorted(os.listdir(d)),
    }
    json.dump(meta, open(os.path.join(d, "meta.json"), "w"), indent=1)
    print(sid, prop, checks, extra)
