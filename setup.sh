#!/bin/bash
# Build the overlay venv used by every check: /venv's python + /venv's site-packages + /repo on the path,
# plus crosshair-tool / z3-solver / cvc5 from the offline wheelhouse.  Idempotent; offline.
set -e
cd "$(dirname "$0")"
V=.venv
STAMP=$V/.ok
if [ -f "$STAMP" ] && "$V/bin/python" -c "import z3, crosshair, cubed" >/dev/null 2>&1; then
  exit 0
fi
# serialise concurrent first-time setups
exec 9>.setup.lock
flock 9
if [ -f "$STAMP" ] && "$V/bin/python" -c "import z3, crosshair, cubed" >/dev/null 2>&1; then
  exit 0
fi
rm -rf "$V"
/venv/bin/python -m venv "$V"
SP=$("$V/bin/python" -c "import sysconfig; print(sysconfig.get_path('purelib'))")
printf '/venv/lib/python3.12/site-packages\n/repo\n' > "$SP/_overlay.pth"
PIP_NO_INDEX=1 "$V/bin/python" -m pip install --quiet --no-index --find-links /opt/veriftools/wheels crosshair-tool z3-solver cvc5 >/dev/null
"$V/bin/python" -c "import z3, crosshair, cubed, cvc5"
touch "$STAMP"
