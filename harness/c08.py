"""C08 -- task failures are retried and surfaced, never dropped; one result per task.

Real code: cubed.runtime.asyncio.async_map_unordered (recompiled from current source with print/logging
stripped and `asyncio`/`time` replaced by the `sched` shims), cubed.runtime.backup.should_launch_backup
(real, min_tasks lowered so that backups are reachable with <= 4 inputs), cubed.runtime.utils.batched,
cubed.runtime.executors.local.threads_create_futures_func + tenacity.Retrying.

Symbolic: per wake-up and per pending future its outcome (running / ok / failed), the iteration order of
the `done` set, every clock increment; concrete per obligation: n inputs, use_backups, batch_size.
"""
from __future__ import annotations

import asyncio as real_asyncio

from engine import loader, sx
from engine.obligation import Obl
from stubs import sched

EXPLANATION = (
    "bounded symbolic execution (own z3 engine `sx`) of the real async_map_unordered / retry wrapper: every outcome "
    "of every pending future at every wake-up, the order in which simultaneously finished futures are seen and all "
    "clock increments are solver variables; the contract of the reliability guide is asserted on every path; "
    "'holds' = all paths within the bound explored and no violating model"
)
TRUSTED_BASE = ["stubs/sched.py (asyncio.wait / Future / time contracts; validated by replays on a real event loop)"]
ASSUMPTIONS = [
    "should_launch_backup's tuning constant min_tasks lowered to 1 so that backups are reachable with <=4 inputs",
    "times are integers (scaled dyadic rationals); float rounding of durations ignored",
    "futures change state only inside asyncio.wait (contract of sched)",
]

_AMU = None
MIN_TASKS = 1


def _load():
    global _AMU
    if _AMU is not None:
        return _AMU
    import cubed.runtime.asyncio as cra
    import cubed.runtime.backup as crb
    import cubed.runtime.utils as cru

    slb = loader.reload(crb.should_launch_backup)
    loader.record(cru.batched)

    def slb_low(task, now, start_times, end_times):
        return slb(task, now, start_times, end_times, min_tasks=MIN_TASKS)

    _AMU = loader.reload(
        cra.async_map_unordered,
        {"asyncio": sched.ShimAsyncio, "time": sched.ShimTime, "should_launch_backup": slb_low},
    )
    return _AMU


def run_map(n, outcomes, dts, perms, use_backups, batch_size):
    """drive the real async_map_unordered once; returns (yielded inputs, exception, world)"""
    amu = _load()
    w = sched.WORLD = sched.World(outcomes, dts, perms)

    def create(inputs, name=None, **kw):
        return [(i, w.new_future(i, False)) for i in inputs]

    def create_backup(inputs, **kw):
        return [(i, w.new_future(i, True)) for i in inputs]

    agen = amu(
        create,
        list(range(n)),
        use_backups=use_backups,
        create_backup_futures_func=create_backup,
        batch_size=batch_size,
        return_stats=True,
        name="op",
    )
    res, err = sched.drive(agen)
    return [r[0] for r in res], err, w


def contract(n, results, err, w, use_backups):
    """the oracle, written from the property statement and docs/user-guide/reliability.md"""
    subs = w.subs
    ok_inputs = {f.inp for f in subs if f._done and f.exc is None}
    # at most two submissions per input: the original and at most one backup
    for i in range(n):
        mine = [f for f in subs if f.inp == i]
        sx.require(len(mine) <= 2, "more-than-two-submissions", f"input {i}: {mine}")
        sx.require(sum(1 for f in mine if f.is_backup) <= 1, "more-than-one-backup", f"input {i}")
        sx.require(sum(1 for f in mine if not f.is_backup) <= 1, "original-submitted-twice", f"input {i}")
    if not use_backups:
        sx.require(not any(f.is_backup for f in subs), "backup-launched-without-use_backups")
    # no input delivered more than once, and only inputs that succeeded
    sx.require(len(set(results)) == len(results), "input-delivered-twice", f"results={results}")
    for i in results:
        sx.require(i in ok_inputs, "delivered-without-success", f"input {i}")
    if err is None:
        # finished normally: exactly one result per input
        sx.require(sorted(results) == list(range(n)), "finished-with-missing-results", f"results={results}")
        return
    if not isinstance(err, sched.TaskError):
        raise sx.Violated(f"crashed:{type(err).__name__}", repr(err))
    # the task's error surfaced: legitimate only if no submission of that input succeeded or may still succeed
    i = err.inp
    mine = [f for f in subs if f.inp == i]
    sx.require(not any(f._done and f.exc is None for f in mine), "error-raised-although-input-succeeded", f"input {i}")
    sx.require(
        not any((not f._done) and (not f.cancelled_) for f in mine),
        "error-raised-while-twin-still-running",
        f"input {i}",
    )


def make_harness(n, use_backups, batch_size, n_o, n_d, n_p):
    def h(**kw):
        outcomes = [kw[f"o{k}"] for k in range(n_o)]
        dts = [kw[f"d{k}"] for k in range(n_d)]
        perms = [kw[f"p{k}"] for k in range(n_p)]
        results, err, w = run_map(n, outcomes, dts, perms, use_backups, batch_size)
        sx.note(w.events)
        contract(n, results, err, w, use_backups)

    h.__name__ = f"amu_n{n}_b{int(use_backups)}_bs{batch_size}"
    return h


def make_twin(n, use_backups, batch_size, n_o, n_d, n_p):
    """reachability twin: same environment, final assertion False on the normal-completion path"""

    def h(**kw):
        outcomes = [kw[f"o{k}"] for k in range(n_o)]
        dts = [kw[f"d{k}"] for k in range(n_d)]
        perms = [kw[f"p{k}"] for k in range(n_p)]
        results, err, w = run_map(n, outcomes, dts, perms, use_backups, batch_size)
        if err is None and (not use_backups or any(f.is_backup for f in w.subs)):
            raise sx.Violated("reached-normal-completion" + ("-with-backup" if use_backups else ""))

    return h


def amu_vars(n_o, n_d, n_p, dmax=12):
    return (
        [(f"o{k}", 0, 2) for k in range(n_o)]
        + [(f"d{k}", 0, dmax) for k in range(n_d)]
        + [(f"p{k}", 0, 3) for k in range(n_p)]
    )


def _nontrivial(m):
    # at least one failure or more than one future finishing somewhere
    return any(v == 2 for k, v in m.items() if k.startswith("o"))


# ---------------------------------------------------------------------------------------------
# public-API replay: the unmodified async_map_unordered on a real event loop with real futures
# ---------------------------------------------------------------------------------------------
def public_replay_factory(n, use_backups, batch_size, n_o, n_d, n_p):
    def replay(model):
        import cubed.runtime.asyncio as cra
        import cubed.runtime.backup as crb

        outcomes = [model[f"o{k}"] for k in range(n_o)]
        dts = [model[f"d{k}"] for k in range(n_d)]
        perms = [model[f"p{k}"] for k in range(n_p)]
        attempts = 3
        seen = []
        for attempt in range(attempts):
            st = {"oi": 0, "ti": 0, "pi": 0, "clock": 0.0, "subs": [], "nfut": 0, "exhausted": False}

            class RFut:
                pass

            async def scenario():
                loop = real_asyncio.get_running_loop()

                def mk(i, is_backup):
                    f = loop.create_future()
                    st["nfut"] += 1
                    st["subs"].append({"fut": f, "inp": i, "is_backup": is_backup, "uid": st["nfut"], "cancelled": False})
                    return f

                def create(inputs, name=None, **kw):
                    return [(i, mk(i, False)) for i in inputs]

                def create_backup(inputs, **kw):
                    return [(i, mk(i, True)) for i in inputs]

                class AsyncioProxy:
                    FIRST_COMPLETED = real_asyncio.FIRST_COMPLETED
                    Future = real_asyncio.Future

                    @staticmethod
                    async def wait(pending, return_when=None, timeout=None):
                        meta = {id(s["fut"]): s for s in st["subs"]}
                        for f in sorted(pending, key=lambda f: meta[id(f)]["uid"]):
                            if st["oi"] >= len(outcomes):
                                st["exhausted"] = True
                                raise RuntimeError("script exhausted")
                            o = outcomes[st["oi"]]
                            st["oi"] += 1
                            if o == 1:
                                f.set_result((meta[id(f)]["inp"], {}))
                            elif o == 2:
                                f.set_exception(sched.TaskError(meta[id(f)]["inp"], meta[id(f)]["uid"]))
                        done, rest = await real_asyncio.wait(pending, return_when=return_when, timeout=0.01)
                        # a set has no order: iterate the really-done futures in the order the model chose
                        order = sorted(done, key=lambda f: meta[id(f)]["uid"])
                        out = []
                        while order:
                            k = 0
                            if len(order) > 1 and st["pi"] < len(perms):
                                k = perms[st["pi"]] % len(order)
                                st["pi"] += 1
                            out.append(order.pop(k))
                        return sched.FinishedSet(out), rest

                class TimeProxy:
                    @staticmethod
                    def time():
                        return 0.0

                    @staticmethod
                    def monotonic():
                        if st["ti"] >= len(dts):
                            st["exhausted"] = True
                            raise RuntimeError("script exhausted")
                        st["clock"] += dts[st["ti"]]
                        st["ti"] += 1
                        return st["clock"]

                saved = (cra.asyncio, cra.time, cra.should_launch_backup)
                cra.asyncio, cra.time = AsyncioProxy, TimeProxy
                cra.should_launch_backup = lambda t, now, s_, e_: crb.should_launch_backup(t, now, s_, e_, min_tasks=MIN_TASKS)
                results = []
                err = None
                try:
                    async for r, stats in cra.async_map_unordered(
                        create, list(range(n)), use_backups=use_backups,
                        create_backup_futures_func=create_backup, batch_size=batch_size, return_stats=True, name="op",
                    ):
                        results.append(r)
                except Exception as e:  # noqa: BLE001
                    err = e
                finally:
                    cra.asyncio, cra.time, cra.should_launch_backup = saved
                return results, err

            import contextlib
            import io

            with contextlib.redirect_stdout(io.StringIO()):
                results, err = real_asyncio.run(scenario())
            if st["exhausted"]:
                seen.append("script exhausted (different interleaving)")
                continue
            # judge with the same contract on real futures
            problems = []
            if len(set(results)) != len(results):
                problems.append(f"input delivered twice: {results}")
            if err is None and sorted(set(results)) != list(range(n)):
                problems.append(f"finished with results {results}")
            if err is not None and not isinstance(err, sched.TaskError):
                problems.append(f"crashed with {type(err).__name__}: {err}")
            if isinstance(err, sched.TaskError):
                mine = [s for s in st["subs"] if s["inp"] == err.inp]
                if any(s["fut"].done() and not s["fut"].cancelled() and s["fut"].exception() is None for s in mine):
                    problems.append(f"error for input {err.inp} raised although a submission of it succeeded")
            if problems:
                return True, f"attempt {attempt}: real event loop, real futures, unmodified async_map_unordered: " + "; ".join(problems)
            seen.append(f"results={results} err={err!r}")
        return False, f"no violation in {attempts} attempts on the real event loop: {seen[:3]}"

    return replay


# ---------------------------------------------------------------------------------------------
# retry wrapper
# ---------------------------------------------------------------------------------------------
class _ImmediateFuture:
    def __init__(self, fn, args, kwargs):
        self.exc = None
        self.res = None
        try:
            self.res = fn(*args, **kwargs)
        except Exception as e:  # noqa: BLE001
            self.exc = e


class _ImmediateExecutor:
    def submit(self, fn, *args, **kwargs):
        return _ImmediateFuture(fn, args, kwargs)


class _AsyncioWrapShim:
    @staticmethod
    def wrap_future(f):
        return f


def retry_harness(retries, k):
    """retries: configured retries; k: failures before the first success (k > attempts => never succeeds)"""
    import cubed.runtime.executors.local as crl

    sx.assume(retries >= 0)
    sx.assume(k >= 0)
    calls = {"n": 0}

    def flaky(i, **kw):
        calls["n"] += 1
        if calls["n"] <= k:
            raise sched.TaskError(i, calls["n"])
        return i

    tcf = loader.reload(crl.threads_create_futures_func, {"asyncio": _AsyncioWrapShim})
    create = tcf(_ImmediateExecutor(), flaky, retries)
    ((inp, fut),) = create([7])
    attempts = calls["n"]
    sx.require(attempts <= retries + 1, "more-than-retries+1-attempts", f"attempts={attempts}")
    if k <= retries:
        sx.require(fut.exc is None and fut.res == 7, "failed-although-within-retry-budget", repr(fut.exc))
        sx.require(attempts == k + 1, "attempt-count-wrong-on-success", f"attempts={attempts}")
    else:
        sx.require(attempts == retries + 1, "gave-up-before-retries+1-attempts", f"attempts={attempts}")
        sx.require(isinstance(fut.exc, sched.TaskError), "error-not-surfaced-as-the-task's-error", repr(fut.exc))
        sx.require(fut.exc.uid == attempts, "not-the-last-error", repr(fut.exc))


def retry_twin(retries, k):
    retry_harness(retries, k)
    if k > retries >= 1:
        raise sx.Violated("reached-exhausted-retries")


def batched_harness(n, b):
    import cubed.runtime.utils as cru

    items = list(range(sx.conc(n)))
    if b < 1:
        try:
            list(cru.batched(items, b))
        except ValueError:
            return
        raise sx.Violated("batched-accepts-n<1")
    out = list(cru.batched(items, b))
    flat = [x for bt in out for x in bt]
    sx.require(flat == items, "batched-loses-or-reorders", str(out))
    for bt in out[:-1]:
        sx.require(len(bt) == b, "batch-size-wrong", str(out))
    if out:
        sx.require(1 <= len(out[-1]) and len(out[-1]) <= b, "last-batch-size-wrong", str(out))
    sx.require((len(out) == 0) == (len(items) == 0), "empty-batches")


def obligations(tier):
    import cubed.runtime.asyncio as cra
    import cubed.runtime.backup as crb
    import cubed.runtime.executors.local as crl
    import cubed.runtime.utils as cru

    fns = [cra.async_map_unordered, crb.should_launch_backup, cru.batched]
    obls = []
    if tier == "quick":
        combos = [
            # n, backups, batch, n_o, n_d, n_p
            (0, False, None, 2, 3, 1),
            (0, False, 2, 2, 3, 1),
            (1, False, 1, 4, 6, 2),
            (2, False, None, 6, 8, 2),
            (3, False, None, 7, 8, 3),
            (3, False, 2, 7, 10, 3),
            (3, False, 1, 7, 12, 3),
            (2, False, 2, 6, 8, 2),
            (2, True, None, 7, 12, 3),
            (3, True, None, 7, 14, 3),
            (3, True, 2, 6, 9, 3),
            (2, True, 1, 7, 14, 3),
            (2, True, 2, 7, 12, 3),
        ]
        wall = 600
    else:
        combos = [
            (0, False, None, 2, 3, 1),
            (0, False, 2, 2, 3, 1),
            (0, True, 1, 2, 3, 1),
            (1, False, 1, 6, 8, 2),
            (1, True, None, 6, 10, 2),
            (2, False, None, 8, 10, 3),
            (3, False, None, 10, 12, 4),
            (4, False, None, 10, 12, 5),
            (3, False, 2, 10, 14, 4),
            (4, False, 2, 10, 16, 4),
            (4, False, 3, 10, 16, 4),
            (3, False, 1, 9, 16, 3),
            (3, False, 3, 9, 12, 4),
            (2, True, None, 9, 16, 4),
            (3, True, None, 9, 18, 4),
            (3, True, 2, 9, 18, 4),
            (4, True, 2, 8, 14, 3),
            (3, True, 1, 9, 18, 4),
            (2, True, 2, 9, 16, 4),
            (3, True, 3, 9, 18, 4),
        ]
        wall = 3000
    for n, ub, bs, n_o, n_d, n_p in combos:
        name = f"amu[n={n},backups={int(ub)},batch={bs}]"
        obls.append(
            Obl(
                name,
                make_harness(n, ub, bs, n_o, n_d, n_p),
                amu_vars(n_o, n_d, n_p),
                functions=fns,
                bounds=f"{n} inputs, use_backups={ub}, batch_size={bs}; <= {n_o} future-outcome observations (every wake-up x pending future), "
                f"<= {n_d} clock readings with increments 0..12, <= {n_p} order choices for simultaneously finished futures",
                outside="longer schedules (reported as unreachable paths, not as success), other executors' own loops (lithops), real I/O faults",
                stubs=["sched.ShimAsyncio.wait", "sched.Fut", "sched.ShimTime"],
                wall_s=wall,
                public_replay=public_replay_factory(n, ub, bs, n_o, n_d, n_p),
                witness_rule=_nontrivial,
            )
        )
    # reachability twins (vacuity guards)
    for n, ub, bs, n_o, n_d, n_p in ([(2, False, None, 6, 8, 2), (2, True, None, 7, 12, 3)] if tier == "quick" else [(3, False, 2, 10, 14, 4), (3, True, None, 9, 18, 4)]):
        obls.append(
            Obl(
                f"twin:amu[n={n},backups={int(ub)},batch={bs}]",
                make_twin(n, ub, bs, n_o, n_d, n_p),
                amu_vars(n_o, n_d, n_p),
                twin_of=f"amu[n={n},backups={int(ub)},batch={bs}]",
                wall_s=wall,
            )
        )
    # the retry budget END TO END: the real ThreadsExecutor entry on a real plan with only the worker pool replaced (harness/execwire.py)
    from harness import c07, execwire

    # few schedules per option combination: the retry budget does not depend on the interleaving (that is amu[...]'s subject)
    for mode, dn, opt, n_o, n_d, n_p, mr in ([("threads", "chain-unequal", 0, 30, 40, 4, 0)] if tier == "quick" else [("threads", dn, o_, 40, 60, 6, 1) for dn in ("chain-unequal", "diamond") for o_ in (0, 1)]):
        vs = c07.vars_(n_o, n_d, n_p) + [("par", 0, 2), ("batch", 0, 1), ("retries", 0, 3), ("kfail", 0, 4)]
        obls.append(Obl(f"executor-retry-budget[{mode},{dn},optimize={opt}]", execwire.make(mode, dn, opt, n_o, n_d, n_p, mr), vs, setup=c07.setup,
                        functions=[crl.ThreadsExecutor._async_execute_dag, crl.threads_create_futures_func, crl.run_func_threads, cra.async_map_dag, cra.async_map_unordered],
                        wall_s=wall,
                        bounds=f"real threads executor entry on plan '{dn}': retries 0..3 passed as an executor option, every stage call failing 0..4 times before it succeeds; "
                               "attempts == min(k+1, retries+1) and success iff k <= retries, for every compute_arrays_in_parallel / batch_size setting and schedule in the bound",
                        outside="the worker pool itself (StubPool); processes executor has no retry wrapper (by design)", stubs=["StubPool", "sched.*"],
                        witness_rule=lambda m: m.get("kfail", 0) >= 1))
    rmax, kmax = (3, 5) if tier == "quick" else (6, 9)
    obls.append(
        Obl(
            "retry-wrapper",
            retry_harness,
            [("retries", 0, rmax), ("k", 0, kmax)],
            functions=[crl.threads_create_futures_func],
            bounds=f"retries 0..{rmax}, failures before first success 0..{kmax}",
            outside="processes executor has no retry wrapper (by design: retries are not part of processes_create_futures_func)",
            stubs=["immediate executor (submit runs the callable synchronously)", "asyncio.wrap_future = identity"],
            wall_s=120,
        )
    )
    obls.append(Obl("twin:retry-wrapper", retry_twin, [("retries", 0, rmax), ("k", 0, kmax)], twin_of="retry-wrapper", wall_s=120))
    obls.append(
        Obl(
            "batched",
            batched_harness,
            [("n", 0, 6 if tier == "quick" else 12), ("b", 0, 7 if tier == "quick" else 13)],
            functions=[cru.batched],
            bounds="0..6 (12) items, batch size 0..7 (13)",
            wall_s=120,
        )
    )
    return obls
