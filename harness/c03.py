"""C03 -- projected memory is a true upper bound on what every task allocates (claimed against an allocation model).

The true allocator lives inside NumPy/Zarr; a solver can only decide the bound against a stated model of it.
 (A) budget arithmetic: calculate_projected_mem equals the documented formula reserved + sum(in * (1 + read copies)) + extra +
     out * (1 + write copies) for symbolic sizes and copy counts, is monotone in every term, and the real general_blockwise
     feeds it the largest chunk of EVERY input and of the largest output (symbolic geometry, through the geom backend).
 (B) allocation ledger: the real task body (apply_blockwise -> get_results_in_different_scope -> map_nested -> block function)
     runs on abstract arrays that register their bytes in a ledger when created and release them when CPython frees them
     (natural refcounting); reading a stored chunk allocates chunk bytes plus read-copies transiently, writing allocates
     write-copies transiently, NumPy results own their buffer, views own nothing.  Asserted: reserved + ledger peak <=
     op.projected_mem, for symbolic 1-d geometry and every block coordinate, for unfused and fused plans.
"""
from __future__ import annotations

from engine import sx
from engine.obligation import Obl
from geom import backend as G
from harness import c01
from stubs import anp

EXPLANATION = (
    "bounded symbolic execution (sx/z3): (A) the memory formula and what the real op construction feeds into it; (B) the real task "
    "body on ledger-tracked abstract arrays with symbolic chunk sizes: peak of live array bytes (symbolic expression) <= projected memory"
)
TRUSTED_BASE = c01.TRUSTED_BASE + ["allocation model (stubs/anp.py Ledger): which NumPy functions allocate a result and which return views; read/write transients as documented in cubed.primitive.memory"]
ASSUMPTIONS = ["LAPACK work buffers (qr's 4x is a declared constant), codec internals and interpreter overhead (reserved_mem's role) are outside",
               "where a declaration has slack over the model a change that only eats slack is not reported (under the model the property still holds)"]


class LedgerArray:
    def __init__(self, name, base, copies):
        self.name = name
        self.shape = base.shape
        self.chunks = base.chunks
        self.dtype = base.dtype
        self.copies = copies
        self.store = ("store", name)

    def __getitem__(self, key):
        key = key if isinstance(key, tuple) else (key,)
        ext = tuple(k.stop - k.start for k in key)
        n = anp._prod(ext) * anp._itemsize(self.dtype)
        import numpy as np

        # the decoded chunk and the buffer(s) it was decoded from coexist while the chunk is being read (the memory model's
        # "input x (1 + read copies)"), so the block is allocated BEFORE the transient copies are released
        dt = np.dtype(self.dtype)
        if dt.fields:  # a structured array is stored as a group of per-field arrays and read as a dict of blocks (ZarrV3ArrayGroup.__getitem__)
            out = {}
            for f in dt.fields:
                out[f] = Block(ext, dt.fields[f][0])
                anp.LEDGER.transient(anp._prod(ext) * anp._itemsize(dt.fields[f][0]) * self.copies.read, f"read-copies {self.name}.{f}")
            return out
        b = Block(ext, self.dtype)
        anp.LEDGER.transient(n * self.copies.read, f"read-copies {self.name}")
        return b

    def __setitem__(self, key, value):
        n = anp._prod(value.shape) * anp._itemsize(value.dtype)
        anp.LEDGER.transient(n * self.copies.write, f"write-copies {self.name}")

    def set_basic_selection(self, key, value, fields=None):
        self.__setitem__(key, value)


class Block(anp.AArr):
    """a chunk read from storage: owns its buffer"""

    _owns = True

    def at(self, idx):
        return ("blk",)

    def field(self, name):
        return FieldOf(self, name)


class FieldOf(anp.AArr):
    """one field of a structured block (cubed reads a structured array as a dict of per-field arrays): no new buffer, keeps the
    block alive, has the FIELD's dtype (so that results computed from it are sized with the field's item size)"""

    def __init__(self, base, name):
        import numpy as np

        dt = np.dtype(base.dtype)
        super().__init__(base.shape, dt.fields[name][0] if dt.fields else dt)
        self.base = base

    def at(self, idx):
        return ("blk",)

    def field(self, name):
        return self


def formula(nin, **kw):
    """calculate_projected_mem == documented formula; monotone"""
    from cubed.primitive.memory import BufferCopies, calculate_projected_mem

    k = sx.conc(nin)
    ins = [kw[f"i{j}"] for j in range(k)]
    r, op, out, rc, wc = kw["r"], kw["op"], kw["out"], kw["rc"], kw["wc"]
    got = calculate_projected_mem(r, ins, op, out, BufferCopies(read=rc, write=wc))
    want = r + op + out * (1 + wc)
    for i in ins:
        want = want + i * (1 + rc)
    sx.require(got == want, "projected-memory-differs-from-the-documented-formula", f"{got} vs {want}")
    bigger = calculate_projected_mem(r + kw["d"], [i + kw["d"] for i in ins], op + kw["d"], out + kw["d"], BufferCopies(read=rc, write=wc))
    sx.require(bigger >= got, "projected-memory-not-monotone")


def feeds_largest_chunks(scenario, **kw):
    """the real op construction projects: reserved + sum over EVERY input of chunkmem*(1+read) + extra + largest output chunk*(1+write)"""
    if scenario in c01.SCENARIOS or scenario in c01.EXTRA_SCENARIOS:
        fn, _ = c01.SCENARIOS[scenario] if scenario in c01.SCENARIOS else c01.EXTRA_SCENARIOS[scenario]
    else:
        from harness import c01b

        fn, _ = c01b.SCENARIOS[scenario]
    out = _capture(fn, kw)
    if out is None:
        return
    outs = out if isinstance(out, (tuple, list)) else (out,)
    dag = outs[0]._plan.dag
    from cubed.storage.virtual import VirtualArray
    from cubed.utils import chunk_memory

    for opname, op in G.all_ops(dag):
        spec = op.pipeline.config
        if not hasattr(spec, "reads_map"):
            continue
        data = 0
        for nm, proxy in spec.reads_map.items():
            data = data + chunk_memory(proxy.array) * 2
        omax = 0
        for nm, proxy in spec.writes_map.items():
            m = anp._prod(proxy.chunks) * anp._itemsize(proxy.array.dtype) if not isinstance(proxy.array.dtype, list) else None
            if m is None:
                continue
            omax = sx.ite(m > omax, m, omax) if isinstance(m, sx.SInt) or isinstance(omax, sx.SInt) else max(m, omax)
        sx.require(op.projected_mem >= op.reserved_mem + data + 2 * omax, "projection-omits-an-input-or-the-output-chunk",
                   f"{opname}: projected {op.projected_mem} < reserved {op.reserved_mem} + inputs {data} + outputs {2 * omax}")


def _capture(fn, kw):
    captured = {}
    orig = c01._declared_ok

    def hook(out, shape):
        captured["out"] = out
        raise c01._Done()

    c01._declared_ok = hook
    c01.MODE = "route"
    try:
        try:
            fn(**kw)
        except c01._Done:
            pass
    finally:
        c01._declared_ok = orig
    return captured.get("out")


def ledger_bound(scenario, optimize, **kw):
    """run one task of every op through the REAL apply_blockwise on ledger-tracked arrays: reserved + peak <= projected"""
    import gc

    from cubed.primitive.blockwise import apply_blockwise
    from cubed.primitive.memory import BufferCopies
    from cubed.storage.virtual import VirtualArray

    if scenario in c01.SCENARIOS or scenario in c01.EXTRA_SCENARIOS:
        fn, _ = c01.SCENARIOS[scenario] if scenario in c01.SCENARIOS else c01.EXTRA_SCENARIOS[scenario]
    else:
        from harness import c01b

        fn, _ = c01b.SCENARIOS[scenario]
    blk = [kw.pop("blk0"), kw.pop("blk1")]
    out = _capture(fn, kw)
    if out is None:
        return
    outs = out if isinstance(out, (tuple, list)) else (out,)
    import networkx as nx

    dag = nx.compose_all([o._plan.dag for o in outs])
    if optimize:
        import cubed.core.optimization as co

        dag = co.multiple_inputs_optimize_dag(dag, array_names=tuple(o.name for o in outs))
    copies = BufferCopies(read=1, write=1)
    for opname, op in G.all_ops(dag):
        spec = op.pipeline.config
        if not hasattr(spec, "writes_map"):
            continue
        saved = []
        for m in (spec.reads_map, spec.writes_map):
            for nm, proxy in m.items():
                if isinstance(proxy.array, (VirtualArray, LedgerArray)):
                    continue
                saved.append((proxy, proxy.array))
                proxy.array = LedgerArray(nm, proxy.array, copies)
        try:
            an, wp = next(iter(spec.writes_map.items()))
            coords = []
            for d, (n, c) in enumerate(zip(wp.array.shape, wp.chunks)):
                nb = 1 if (isinstance(n, int) and n == 0) else sx.conc(-((-n) // c))
                coords.append(sx.conc(blk[d] % nb) if d < 2 else 0)
            pass
            anp.LEDGER.reset(True)
            try:
                try:
                    apply_blockwise(list(coords), config=spec)
                except (TypeError, NotImplementedError) as ex:  # an accepted plan's task raising is not a refusal: the stub lacks something
                    raise anp.Unsupported(f"task of {opname} raised {type(ex).__name__}: {str(ex)[:200]}") from ex
                highs = list(anp.LEDGER.highs)
                events = list(anp.LEDGER.events)
            finally:
                anp.LEDGER.reset(False)
        finally:
            for proxy, arr in saved:
                proxy.array = arr
        sx.note((opname, "allocations", len(highs)))
        # peak = max(highs): the bound must hold at every allocation point
        sx.require(sx.sand(*[op.reserved_mem + h <= op.projected_mem for h in highs]) if highs else True, "task-allocates-more-than-the-projected-memory",
                   f"{opname}{coords}: live bytes after some allocation + reserved {op.reserved_mem} > projected {op.projected_mem}; events {events[:16]}")


def replay_strided_selection(model):
    """the same geometry scaled by 200000 on the real code: the fused task runs under tracemalloc (which sees NumPy
    buffers) and its peak is compared with the plan's projected memory for that operation"""
    import shutil
    import tempfile
    import tracemalloc

    import numpy as np
    import zarr

    import cubed
    from cubed.core.plan import arrays_to_plan
    from cubed.primitive.blockwise import apply_blockwise

    S = 200000
    n, c, st = model["n"] * S, model["c"] * S, model["st"]
    d = tempfile.mkdtemp(prefix="verif_c03_")
    try:
        z = zarr.create_array(store=d + "/x.zarr", shape=(n,), chunks=(c,), dtype="float64", compressors=None)
        z[:] = 1.0
        spec = cubed.Spec(work_dir=d + "/work", allowed_mem=4_000_000_000, reserved_mem=0, zarr_compressor=None)
        x = cubed.from_zarr(d + "/x.zarr", spec=spec)
        y = x[::st]
        fp = arrays_to_plan(y)._finalize(optimize_graph=True)
        worst = None
        for nm, dd in fp.dag.nodes(data=True):
            if nm == "create-arrays":
                for a in dd["pipeline"].mappable:
                    a.create(mode="a")
        for nm, dd in fp.dag.nodes(data=True):
            if "primitive_op" in dd and nm != "create-arrays":
                op = dd["primitive_op"]
                for coords in list(op.pipeline.mappable)[: 2]:
                    tracemalloc.start()
                    apply_blockwise(list(coords), config=op.pipeline.config)
                    _, peak = tracemalloc.get_traced_memory()
                    tracemalloc.stop()
                    if worst is None or peak / op.projected_mem > worst[0]:
                        worst = (peak / op.projected_mem, nm, peak, op.projected_mem)
        if worst and worst[0] > 1.0:
            return True, f"real fused task of {worst[1]} allocated {worst[2]} bytes of traced memory but the plan projects {worst[3]} (ratio {worst[0]:.3f}) for n={n}, chunks={c}, step={st}"
        return False, f"tracemalloc peak within projection: {worst}"
    finally:
        shutil.rmtree(d, ignore_errors=True)


def obligations(tier):
    import cubed.array_api.manipulation_functions as mf
    import cubed.core.ops as ops
    import cubed.primitive.blockwise as pb
    import cubed.primitive.memory as pm

    wall = 600 if tier == "quick" else 3000
    N = 5 if tier == "quick" else 8
    fns = [pm.calculate_projected_mem, pm.get_buffer_copies, pb.general_blockwise, pb.apply_blockwise, pb.get_results_in_different_scope, pb.map_nested,
           pb.peak_projected_mem, pb.fuse_multiple, ops.partial_reduce, ops._partial_reduce, ops._rechunk, ops._assemble_index_chunk, ops.scan, mf.permute_dims,
           mf.repeat, mf._repeat, mf._read_concat_chunk]
    o = []
    o.append(Obl("formula", formula, [("nin", 0, 3)] + [(f"i{j}", 0, 10**12) for j in range(3)] + [("r", 0, 10**12), ("op", 0, 10**12), ("out", 0, 10**12), ("rc", 0, 3), ("wc", 0, 3), ("d", 0, 10**6)],
                 functions=[pm.calculate_projected_mem], wall_s=wall, bounds="0..3 inputs, sizes up to 1e12, buffer copies 0..3"))
    scen = ["negative", "subtract[same-chunks]", "subtract[different-chunks]", "sum", "mean", "index[slice]", "concat", "stack", "repeat", "flip", "roll", "unstack", "rechunk", "expand_dims+squeeze", "cumulative_sum"]
    for nm in scen:
        _, vs = c01.SCENARIOS[nm]
        o.append(Obl(f"feeds[{nm}]", (lambda nm: lambda **kw: feeds_largest_chunks(nm, **kw))(nm), vs(N), allowed=c01.ALLOWED + (AssertionError,), setup=c01.setup, functions=fns, wall_s=wall,
                     bounds=f"as C01, sizes <= {N}", stubs=["geom"], witness_rule=lambda m: m.get("n", m.get("n1", 0)) >= 2))
    for nm in scen:
        _, vs = c01.SCENARIOS[nm]
        for opt in ((0, 1) if nm in ("sum", "mean", "concat", "subtract[different-chunks]", "repeat", "index[slice]", "cumulative_sum") else (0,)):
            NN = N + 2 if nm == "index[slice]" else N  # the fused selection needs chunks >= 6 to show its excess
            o.append(Obl(f"ledger[{nm},optimize={opt}]", (lambda nm, opt: lambda **kw: ledger_bound(nm, opt, **kw))(nm, opt), vs(NN) + [("blk0", 0, NN + 6), ("blk1", 0, 3)],
                         allowed=c01.ALLOWED + (AssertionError,), setup=c01.setup, functions=fns, wall_s=wall,
                         bounds=f"as C01, sizes <= {N}; one task of every op (fused ops when optimize=1) at a symbolic block coordinate; read/write copies 1/1",
                         outside="LAPACK buffers, codec internals, interpreter overhead; 2-d symbolic geometry", stubs=["anp Ledger", "LedgerArray reads/writes"],
                         witness_rule=lambda m: m.get("n", m.get("n1", 0)) >= 2))

    _, vs = c01.EXTRA_SCENARIOS["index[::step]"]
    for opt in (0, 1):
        o.append(Obl(f"ledger[index[::step],optimize={opt}]", (lambda opt: lambda **kw: ledger_bound("index[::step]", opt, **kw))(opt), vs(N) + [("blk0", 0, 4 * N), ("blk1", 0, 0)],
                     allowed=c01.ALLOWED, setup=c01.setup, functions=fns, wall_s=wall,
                     bounds=f"x[::step] with n <= {4*N}, chunks <= {N+3}, step 2..3: selection + merge_chunks (fused when optimize=1), every block",
                     stubs=["anp Ledger"], witness_rule=lambda m: m["n"] >= 2 * m["c"], public_replay=replay_strided_selection if opt else None))

    for nm, opts in (("add[astype-int8]", (0, 1)), ("roll", (1,)), ("argmax", (0, 1)), ("flip", (1,)), ("stack", (1,)), ("negative", (1,))):
        _, vs = c01.SCENARIOS[nm] if nm in c01.SCENARIOS else c01.EXTRA_SCENARIOS[nm]
        for opt in opts:
            o.append(Obl(f"ledger[{nm},optimize={opt}]", (lambda nm, opt: lambda **kw: ledger_bound(nm, opt, **kw))(nm, opt), vs(N) + [("blk0", 0, N + 6), ("blk1", 0, 3)],
                         allowed=c01.ALLOWED + (AssertionError,), setup=c01.setup, functions=fns, wall_s=wall,
                         bounds=f"as C01, sizes <= {N}; one task of every op (fused ops when optimize=1) at a symbolic block coordinate; read/write copies 1/1",
                         outside="LAPACK buffers, codec internals, interpreter overhead", stubs=["anp Ledger", "LedgerArray reads/writes"],
                         witness_rule=lambda m: m.get("n", m.get("n1", 0)) >= 2))
    from harness import c01b

    for nm in ("index[int-array,one-element-per-block]",):
        _, vs = c01b.SCENARIOS[nm]
        for opt in (0, 1):
            o.append(Obl(f"ledger[{nm},optimize={opt}]", (lambda nm, opt: lambda **kw: ledger_bound(nm, opt, **kw))(nm, opt), vs(N) + [("blk0", 0, 6), ("blk1", 0, 0)],
                         allowed=c01.ALLOWED + (AssertionError,), setup=c01.setup, functions=fns, wall_s=wall,
                         bounds="x[idx] gathering one element from each of k <= 6 blocks of c <= 6 elements into ONE output chunk: how many input blocks a selection task holds at once",
                         outside="LAPACK buffers, codec internals, interpreter overhead", stubs=["anp Ledger"], witness_rule=lambda m: m["k"] >= 4))
    for nm in ("var-float32[1d]", "var-float64[1d]", "mean-float32[1d]", "sum-int8[1d]"):
        _, vs = c01.EXTRA_SCENARIOS[nm]
        o.append(Obl(f"ledger[{nm},optimize=0]", (lambda nm: lambda **kw: ledger_bound(nm, 0, **kw))(nm), vs(N) + [("blk0", 0, 48), ("blk1", 0, 0)],
                     allowed=c01.ALLOWED + (AssertionError,), setup=c01.setup, functions=fns, wall_s=wall,
                     bounds="1-d array of up to 48 elements in chunks of up to 24: the block function's temporaries against the projection; every task of every op",
                     outside="LAPACK buffers, codec internals, interpreter overhead", stubs=["anp Ledger"], witness_rule=lambda m: m["n"] >= 2 * m["c"]))
    for kind in c01._REDUCE_KINDS:
        nm = f"{kind}[axis0-2d]"
        _, vs = c01.EXTRA_SCENARIOS[nm]
        for opt in (0, 1):
            o.append(Obl(f"ledger[{nm},optimize={opt}]", (lambda nm, opt: lambda **kw: ledger_bound(nm, opt, **kw))(nm, opt),
                         vs(N) + [("blk0", 0, 4), ("blk1", 0, N)], allowed=c01.ALLOWED + (AssertionError,), setup=c01.setup, functions=fns, wall_s=wall,
                         bounds=f"{kind.replace('-', ' of ')} over axis 0 of an (n<=4, m<={N}) array with chunks (1..2, 1..{N}) (skinny along the reduced axis); "
                                "one task of every op at a symbolic block coordinate; NumPy dtype promotion and temporary elision modelled",
                         outside="LAPACK buffers, codec internals, interpreter overhead", stubs=["anp Ledger"], witness_rule=lambda m: m["n"] >= 2 and m["c2"] >= 2))

    def twin(**kw):
        ledger_bound("sum", 0, **kw)
        raise sx.Violated("reached-end")

    _, vs = c01.SCENARIOS["sum"]
    o.append(Obl("twin:ledger[sum]", twin, vs(N) + [("blk0", 0, N + 6), ("blk1", 0, 3)], allowed=c01.ALLOWED, setup=c01.setup, twin_of="ledger[sum,optimize=0]", wall_s=wall))
    return o
