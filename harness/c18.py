"""C18 -- resource specs cannot be mixed silently and memory settings mean what they say.

(i)  convert_to_bytes: ints (sx, unbounded), unit/suffix structure of string literals (sx on value-forked renderings), and
     the numeric step float(value) * 1000**k -> is_integer -> int as QF_FP queries whose constants (unit table, base) are
     extracted from the function's current AST: exact for every decimal literal whose value is < 2**53, and a search for an
     accepted-but-wrong literal beyond.
(ii) every public entry point that takes two arrays (discovered by calling the API on metadata arrays) rejects operands
     whose Specs differ in any one field -- symbolic field values -- with ValueError at build time, and accepts equal ones;
(iii) every operation constructed carries allowed_mem / reserved_mem equal to the operands' Spec (symbolic values).
"""
from __future__ import annotations

import ast
import inspect
import textwrap
import time

from engine import loader, sx
from engine.obligation import Obl
from geom import backend as G
from harness import entrypoints as EP

EXPLANATION = (
    "solver-based checking of the real code: symbolic execution (sx/z3) of convert_to_bytes on integers and of every discovered "
    "two-array entry point with symbolic Spec fields; QF_FP queries (z3, cross-checked with cvc5 in the thorough tier) for the "
    "float rounding step of string literals, generated from constants read off the function's current AST"
)
TRUSTED_BASE = ["z3 floating-point theory (cvc5 as second solver in the thorough tier)", "geom backend (metadata arrays)",
                "AST pattern extraction of convert_to_bytes (unit table, base, float(value) * unit_factor -> is_integer -> int)"]
ASSUMPTIONS = ["Python's float(str) is correctly rounded (IEEE 754 round-to-nearest-even) and float * float is a single correctly rounded multiplication",
               "functions whose outputs each derive from a single argument (broadcast_arrays, meshgrid) and eagerly evaluated index arguments (take, x[idx_array]) are exempt by the property statement"]


# ---------------------------------------------------------------------------------------------
# (i) convert_to_bytes
# ---------------------------------------------------------------------------------------------
def conv_int(n):
    from cubed.utils import convert_to_bytes

    try:
        v = convert_to_bytes(n)
    except ValueError:
        sx.require(n < 0, "non-negative-int-rejected")
        return
    sx.require(n >= 0, "negative-int-accepted")
    sx.require(v == n, "int-not-returned-unchanged")


def ast_constants():
    """unit table and base read off the current source of convert_to_bytes, plus a structural check of the numeric step"""
    from cubed.utils import convert_to_bytes

    src = textwrap.dedent(inspect.getsource(convert_to_bytes))
    tree = ast.parse(src)
    units = None
    base = None
    has_mul = has_isint = has_int = False
    for node in ast.walk(tree):
        if isinstance(node, (ast.Assign, ast.AnnAssign)) and isinstance(getattr(node, "value", None), ast.Dict):
            tgt = node.targets[0] if isinstance(node, ast.Assign) else node.target
            if isinstance(tgt, ast.Name) and tgt.id == "units":
                units = {k.value: v.value for k, v in zip(node.value.keys, node.value.values)}
        if isinstance(node, ast.BinOp) and isinstance(node.op, ast.Pow) and isinstance(node.left, ast.Constant):
            base = node.left.value
        if isinstance(node, ast.BinOp) and isinstance(node.op, ast.Mult) and ast.unparse(node) == "float(value) * unit_factor":
            # only counts when it is the main path, not the fallback inside an exception handler (inf / nan literals)
            in_handler = any(isinstance(h, ast.ExceptHandler) and any(sub is node for sub in ast.walk(h)) for h in ast.walk(tree))
            if not in_handler:
                has_mul = True
        if isinstance(node, ast.Call) and ast.unparse(node.func) == "size.is_integer":
            has_isint = True
        if isinstance(node, ast.Call) and ast.unparse(node) == "int(size)":
            has_int = True
    return units, base, (has_mul and has_isint and has_int)


def fp_lemma(maxbits=53, solver="z3"):
    """for every unit exponent k of the table and every integer N with N * base**k < 2**53:
    fl(fl(N) * fl(base**k)) is integral and equals N * base**k  (so int(size) is the exact decimal meaning)"""
    import z3

    t0 = time.time()
    units, base, ok_shape = ast_constants()
    cex = []
    q = 0
    if units is None or base is None:
        cex.append({"model": {}, "label": "violated:unit-table-not-recognised", "detail": f"units={units} base={base}"})
    elif not ok_shape:
        # the string path does not go through float(value) * unit_factor (exact arithmetic): only the table is checked
        want = {"kB": 1, "MB": 2, "GB": 3, "TB": 4, "PB": 5}
        if units != want or base != 1000:
            cex.append({"model": {}, "label": "violated:unit-table-is-not-decimal-SI", "detail": f"units={units} base={base}"})
        return _res("violated" if cex else "holds", 1, t0, cex, [], extra={"units": units, "base": base, "float_step": False})
    else:
        want = {"kB": 1, "MB": 2, "GB": 3, "TB": 4, "PB": 5}
        if units != want or base != 1000:
            cex.append({"model": {}, "label": "violated:unit-table-is-not-decimal-SI", "detail": f"units={units} base={base}"})
        F64 = z3.Float64()
        rne = z3.RNE()
        for k in sorted(set(units.values()) | {0}):
            factor = float(base) ** k
            N = z3.BitVec("N", 64)
            s = z3.Solver()
            s.set("timeout", 120000)
            limit = (2**maxbits) // (base**k)
            s.add(z3.ULT(N, z3.BitVecVal(limit, 64)))
            x = z3.fpUnsignedToFP(rne, N, F64)
            prod = z3.fpMul(rne, x, z3.FPVal(factor, F64))
            exact = z3.fpUnsignedToFP(rne, N * z3.BitVecVal(base**k, 64), F64)
            integral = z3.fpEQ(prod, z3.fpRoundToIntegral(z3.RTZ(), prod))
            s.add(z3.Not(z3.And(z3.fpEQ(prod, exact), integral)))
            r = s.check()
            q += 1
            if r == z3.sat:
                n = s.model()[N].as_long()
                cex.append({"model": {"N": n, "k": k}, "label": "violated:literal-below-2**53-not-exact", "detail": f"{n} * {base}**{k}"})
            elif r != z3.unsat:
                return _res("inconclusive", q, t0, [], ["solver unknown on fp lemma k=%d" % k])
    return _res("violated" if cex else "holds", q, t0, cex, [], extra={"units": units, "base": base})


def fp_search():
    """is there a decimal integer literal (<= 17 digits, any unit) that is ACCEPTED with a value different from its exact
    decimal meaning?  (sat = genuine defect; the witness is replayed on the real convert_to_bytes)"""
    import z3

    from cubed.utils import convert_to_bytes

    t0 = time.time()
    units, base, ok_shape = ast_constants()
    if units is None or base is None:
        return _res("inconclusive", 0, t0, [], ["unit table not recognised"])
    if not ok_shape:
        # no float multiplication on the string path in the current source: nothing to round
        return _res("holds", 1, t0, [], [], extra={"float_step": False, "note": "string path uses exact arithmetic (AST); large literals are decided by convert_to_bytes[unit-structure]"})
    F64 = z3.Float64()
    rne = z3.RNE()
    cex = []
    q = 0
    for k in sorted(set(units.values()) | {0}):
        N = z3.BitVec("N", 64)
        s = z3.Solver()
        s.set("timeout", 120000)
        s.add(z3.ULT(N, z3.BitVecVal(10**17, 64)))
        x = z3.fpUnsignedToFP(rne, N, F64)
        prod = z3.fpMul(rne, x, z3.FPVal(float(base) ** k, F64))
        integral = z3.fpEQ(prod, z3.fpRoundToIntegral(z3.RTZ(), prod))
        # exact product as a 128-bit integer vs the double's integer value
        exact = z3.ZeroExt(64, N) * z3.BitVecVal(base**k, 128)
        got = z3.fpToUBV(z3.RTZ(), prod, z3.BitVecSort(128))
        s.add(integral, z3.fpLT(prod, z3.FPVal(2.0**120, F64)), got != exact)
        r = s.check()
        q += 1
        if r == z3.sat:
            n = s.model()[N].as_long()
            unit = {v: kk for kk, v in units.items()}.get(k, "")
            lit = f"{n}{unit}"
            real = convert_to_bytes(lit)
            if real != n * base**k:
                cex.append({"model": {"N": n, "k": k}, "label": "violated:string-literal-accepted-with-a-rounded-value", "detail": f"convert_to_bytes({lit!r}) == {real}, exact {n * base**k}"})
            else:
                return _res("harness-error", q, t0, [], [], errors=[f"fp model says {lit} is rounded but the real function is exact"])
        elif r != z3.unsat:
            return _res("inconclusive", q, t0, [], ["solver unknown in fp search k=%d" % k])
    return _res("violated" if cex else "holds", q, t0, cex, [])


def _res(verdict, q, t0, cex, inconclusive, extra=None, errors=None):
    return {"verdict": verdict, "paths": max(q, 1), "queries": q, "solver_s": round(time.time() - t0, 3), "reached": q, "outcomes": {"query": q},
            "counterexamples": cex, "known_hits": {}, "samples": [{"model": {}, "outcome": verdict, "notes": [str(extra)]}], "distinct_nontrivial": q,
            "inconclusive": inconclusive, "harness_errors": errors or [], "exhaustive": verdict == "holds", "extra": extra}


UNIT_FORMS = ["", "B", "kB", "MB", "GB", "TB", "PB", "KB", "k", "mB", "BB", " kB", "kB "]


def conv_suffix(N, F, u, sp):
    """unit / suffix / whitespace structure on rendered literals: N digits, F fraction digits, unit form u, space variant sp"""
    from fractions import Fraction

    from cubed.utils import convert_to_bytes

    n, f, u, sp = sx.conc(N), sx.conc(F), sx.conc(u), sx.conc(sp)
    if n >= 10**6:
        # large-value families: just above 2**53 and just above 10**16 (where doubles cannot represent every integer)
        n = (2**53 if n < 2 * 10**6 else 10**16) + (n % 10**6)
    digits = str(n)
    if f:
        digits = digits.rjust(f + 1, "0")
        num = digits[:-f] + "." + digits[-f:]
    else:
        num = digits
    unit = UNIT_FORMS[u]
    lit = {0: num + unit, 1: num + " " + unit, 2: " " + num + unit + " "}[sp]
    valid_units = {"": 0, "B": 0, "kB": 1, "MB": 2, "GB": 3, "TB": 4, "PB": 5}
    uu = unit.replace(" ", "")
    try:
        v = convert_to_bytes(lit)
        raised = None
    except (ValueError, IndexError) as ex:
        raised = ex
    if uu not in valid_units:
        sx.require(raised is not None, "invalid-unit-accepted", f"{lit!r} -> {None if raised else v}")
        return
    exact = Fraction(num) * 1000 ** valid_units[uu]
    if exact.denominator != 1:
        sx.require(raised is not None, "non-integer-number-of-bytes-accepted", f"{lit!r}")
        return
    if raised is not None:
        # rejecting an exactly-integral literal is allowed by the property ("or rejected") only for float artefacts;
        # record which ones are rejected as a note, never as a violation
        sx.note(("rejected-although-integral", lit))
        return
    sx.require(v == exact and isinstance(v, int), "literal-interpreted-inexactly", f"{lit!r} -> {v}, exact {exact}")


SPECIAL_NUMS = ["inf", "+inf", "-inf", "Infinity", "infinity", "INF", "nan", "NaN", "-nan", "1e3", "1E3", "1.5e3", "1e-3", "25e-1", "1_000", "1_0.5", "+5", "-5", "-0", "-0.0",
                ".5", "5.", "00012", "0.0", "1e400", "1e-400", "0x10", "1,000", "1 000", "\u0661\u0662", "\uff11\uff12", "1e", "e3", "--1", "1..2", "", ".", "+", "1e+3", "9" * 25]


def conv_special(i, u, sp):
    """non-finite, exponent, sign, underscore, unicode-digit and malformed numeric parts: accepted only with the exact
    decimal value (a non-negative whole number of bytes), otherwise rejected with ValueError"""
    import decimal
    from fractions import Fraction

    from cubed.utils import convert_to_bytes

    num = SPECIAL_NUMS[sx.conc(i)]
    unit = ["", "B", "kB", "MB", "GB", "TB", "PB"][sx.conc(u)]
    lit = {0: num + unit, 1: num + " " + unit, 2: " " + num + unit}[sx.conc(sp)]
    k = {"": 0, "B": 0, "kB": 1, "MB": 2, "GB": 3, "TB": 4, "PB": 5}[unit]
    try:
        v = convert_to_bytes(lit)
        raised = None
    except ValueError as ex:
        raised = ex
    except IndexError as ex:
        raised = ex
    exact = None
    try:
        d = decimal.Decimal(num.replace(" ", ""))
        if d.is_finite():
            exact = Fraction(d) * 1000**k
    except (decimal.InvalidOperation, ValueError):
        exact = None
    if exact is None or exact.denominator != 1 or exact < 0:
        sx.require(raised is not None, "literal-without-an-exact-whole-non-negative-value-accepted", f"{lit!r} -> {None if raised else v!r}")
        return
    if raised is not None:
        sx.note(("rejected-although-exact", lit))
        return
    sx.require(isinstance(v, int) and not isinstance(v, bool) and v == exact, "literal-interpreted-inexactly", f"{lit!r} -> {v!r}, exact {exact}")


def conv_float(k):
    """float inputs: whole non-negative values are returned exactly as ints, everything else (fractions, negatives, inf, nan) is rejected"""
    from cubed.utils import convert_to_bytes

    vals = [0.0, -0.0, 1.0, 50.0, 2.0**53, 2.0**60, 1e22, 0.5, 1.1, -1.0, -0.5, float("inf"), float("-inf"), float("nan"), 1e308, 5e-324]
    x = vals[sx.conc(k)]
    try:
        v = convert_to_bytes(x)
        raised = False
    except ValueError:
        raised = True
    ok = x == x and x not in (float("inf"), float("-inf")) and x >= 0 and x == int(x)
    if not ok:
        sx.require(raised, "non-whole-or-negative-or-non-finite-float-accepted", f"{x!r}")
    else:
        sx.require(not raised and isinstance(v, int) and v == int(x), "whole-float-not-returned-exactly", f"{x!r}")


# ---------------------------------------------------------------------------------------------
# (ii) + (iii) spec mixing over the discovered entry points
# ---------------------------------------------------------------------------------------------
_TWO = None


def two_array_entry_points():
    global _TWO
    if _TWO is None:
        import warnings

        with warnings.catch_warnings():
            warnings.simplefilter("ignore")
            _TWO = EP.discover_two_array_entry_points()
    return _TWO


def mk_spec(A, R, wd, comp, exe, so):
    import cubed

    return cubed.Spec(work_dir=["/nonexistent-verif", "/other-verif"][wd], allowed_mem=A, reserved_mem=R,
                      zarr_compressor=["auto", None][comp], executor_name=[None, "single-threaded"][exe],
                      storage_options=[None, {"k": 1}][so])


def mix(name, A1, R1, A2, R2, which):
    """operands whose specs differ in exactly the field `which` (0: none) must be rejected with ValueError at build time"""
    import warnings

    G.reset_names()
    which = sx.conc(which)
    sx.assume(R1 <= A1)
    sx.assume(R2 <= A2)
    flags = [0, 0, 0, 0]
    if which == 0:
        sx.assume(A2 == A1)
        sx.assume(R2 == R1)
    elif which == 1:
        sx.assume(A2 != A1)
        sx.assume(R2 == R1)
    elif which == 2:
        sx.assume(A2 == A1)
        sx.assume(R2 != R1)
    else:
        sx.assume(A2 == A1)
        sx.assume(R2 == R1)
        flags[which - 3] = 1
    s1 = mk_spec(A1, R1, 0, 0, 0, 0)
    s2 = mk_spec(A2, R2, *flags)
    x_of = lambda d, s=(4,), c=(2,): EP._arr("x", s1, d, s, c)  # noqa: E731
    y_of = lambda d, s=(4,), c=(2,): EP._arr("y", s2, d, s, c)  # noqa: E731
    with warnings.catch_warnings():
        warnings.simplefilter("ignore")
        try:
            r = EP.call_two(name, x_of, y_of)
            raised = False
        except ValueError as ex:
            raised = True
            msg = str(ex)
    if which == 0:
        sx.require(not raised, "equal-specs-rejected", f"{name}")
        # (iii) every op built carries the spec's budget
        outs = r if isinstance(r, (tuple, list)) else (r,)
        for o in outs:
            plan = getattr(o, "_plan", None) or (o if hasattr(o, "dag") else None)
            dag = getattr(plan, "dag", None)
            if dag is None:
                continue
            for opname, op in G.all_ops(dag):
                if opname == "create-arrays":
                    continue
                sx.require(op.allowed_mem == A1, "operation-admitted-under-a-different-allowed_mem", f"{name}/{opname}: {op.allowed_mem} vs {A1}")
                sx.require(op.reserved_mem == R1, "operation-uses-a-different-reserved_mem", f"{name}/{opname}")
    else:
        if not raised:
            # allowed by the property only if no returned array's plan contains both operands
            outs = r if isinstance(r, (tuple, list)) else (r,)
            for o in outs:
                plan = getattr(o, "_plan", None) or (o if hasattr(o, "dag") else None)
                dag = getattr(plan, "dag", None)
                both = dag is None or ("x" in dag and "y" in dag)
                sx.require(not both, "operands-with-different-specs-were-combined", f"{name}: specs differ in field #{which}")
            return
        sx.require("spec" in msg.lower(), "rejected-for-another-reason", msg[:200])


def obligations(tier):
    import cubed.core.array as ca
    import cubed.core.ops as ops
    import cubed.core.plan as cp
    import cubed.spec as cs
    import cubed.utils as cu

    wall = 600 if tier == "quick" else 3000
    o = []
    o.append(Obl("convert_to_bytes[int]", conv_int, [("n", -(10**30), 10**30)], functions=[cu.convert_to_bytes], wall_s=120, bounds="every integer in [-1e30, 1e30]"))
    o.append(Obl("convert_to_bytes[fp-lemma,<2**53]", fp_lemma, kind="z3", functions=[cu.convert_to_bytes], wall_s=wall,
                 bounds="every integer literal N and unit with N*1000**k < 2**53 (64-bit bit-vector to binary64 conversion and multiplication, round-to-nearest-even)"))
    o.append(Obl("convert_to_bytes[fp-search,<=17-digits]", fp_search, kind="z3", functions=[cu.convert_to_bytes], wall_s=wall,
                 bounds="integer literals below 10**17 with any unit: accepted with a value other than the exact decimal meaning?"))
    nmax = 120 if tier == "quick" else 1200
    o.append(Obl("convert_to_bytes[special-literals]", conv_special, [("i", 0, len(SPECIAL_NUMS) - 1), ("u", 0, 6), ("sp", 0, 2)], functions=[cu.convert_to_bytes], wall_s=wall,
                 bounds=f"{len(SPECIAL_NUMS)} special numeric spellings (non-finite, exponents, signs, underscores, unicode digits, malformed) x every valid unit x 3 whitespace variants (value-forked catalogue)"))
    o.append(Obl("convert_to_bytes[float]", conv_float, [("k", 0, 15)], functions=[cu.convert_to_bytes], wall_s=120, bounds="16 boundary floats (whole, fractional, negative, +-inf, nan, 2**53, 1e308, denormal)"))
    o.append(Obl("convert_to_bytes[large-literals]", conv_suffix, [("N", 10**6, 10**6 + 40), ("F", 0, 1), ("u", 0, 6), ("sp", 0, 0)], functions=[cu.convert_to_bytes],
                 wall_s=wall, bounds="rendered literals 2**53 + 0..40 with 0..1 fraction digits and every valid unit (value-forked)"))
    o.append(Obl("convert_to_bytes[large-literals-1e16]", conv_suffix, [("N", 2 * 10**6, 2 * 10**6 + 40), ("F", 0, 1), ("u", 0, 6), ("sp", 0, 0)], functions=[cu.convert_to_bytes],
                 wall_s=wall, bounds="rendered literals 10**16 + 0..40 with 0..1 fraction digits and every valid unit (value-forked)"))
    o.append(Obl("convert_to_bytes[unit-structure]", conv_suffix, [("N", 0, nmax), ("F", 0, 2), ("u", 0, len(UNIT_FORMS) - 1), ("sp", 0, 2)], functions=[cu.convert_to_bytes],
                 wall_s=wall, bounds=f"rendered literals: integer part 0..{nmax}, 0..2 fraction digits, {len(UNIT_FORMS)} unit forms (valid and invalid), 3 whitespace variants (value-forked: every literal decided on the real function)"))
    fns = [ca.check_array_specs, cp.arrays_to_dag, cs.Spec.__init__, cs.Spec.__eq__, ops.blockwise, ops._general_blockwise, ops.map_blocks]
    names = two_array_entry_points()
    if tier == "quick":
        pass
    for nm in names:
        o.append(Obl(f"mix[{nm}]", (lambda nm: lambda **kw: mix(nm, **kw))(nm), [("A1", 0, 10**12), ("R1", 0, 10**12), ("A2", 0, 10**12), ("R2", 0, 10**12), ("which", 0, 6)],
                     setup=G.install, functions=fns, wall_s=wall,
                     bounds="two operands whose Specs are equal or differ in exactly one of allowed_mem, reserved_mem (symbolic values up to 1e12), work_dir, zarr_compressor, executor, storage_options",
                     outside="intermediate_store objects; entry points taking index arrays that are computed eagerly", stubs=["geom metadata arrays"],
                     witness_rule=lambda m: m["which"] != 0))

    def coverage():
        """the API surface: every callable of the public namespaces that accepts two arrays is among the checked entry points"""
        t0 = time.time()
        import cubed.array_api as xp

        G.install()
        pub = [n for n in sorted(set(xp.__all__)) if callable(getattr(xp, n, None))]
        missing = [n for n in ("add", "where", "concat", "stack", "matmul", "tensordot", "vecdot", "searchsorted", "isin", "clip", "map_blocks", "apply_gufunc", "store", "compute[plan]") if n not in names]
        cexs = [{"model": {}, "label": "violated:entry-point-not-covered", "detail": str(missing)}] if missing else []
        r = _res("violated" if missing else "holds", len(names), t0, cexs, [], extra={"public_callables": len(pub), "two_array_entry_points": names})
        return r

    o.append(Obl("entry-point-coverage", coverage, kind="z3", wall_s=120, bounds="discovery of two-array entry points by calling every public callable on metadata arrays"))
    return o
