"""Enumeration of cubed's public entry points for C18 (ii, iii) and C19.

Every callable of cubed.array_api.__all__ plus the top-level namespace is classified by *calling it* on metadata-only
arrays (geom backend): functions that accept two (or three) arrays, functions that take a sequence of arrays, and
single-array functions.  A small manual table covers entry points whose arguments are not plain arrays."""
from __future__ import annotations

import inspect

from engine import sx
from geom import backend as G

# functions whose outputs each derive from a single argument, or that are not array constructors
EXEMPT_MULTI = {"broadcast_arrays", "meshgrid", "result_type", "can_cast", "broadcast_shapes", "isdtype", "full_like", "finfo", "iinfo"}


def _arr(name, spec, dtype="float64", shape=(4,), chunks=(2,)):
    return G.stub_array(name, shape, chunks, dtype=dtype, spec=spec)


def binary_candidates():
    import cubed.array_api as xp

    out = []
    for n in sorted(set(xp.__all__)):
        f = getattr(xp, n, None)
        if not callable(f) or inspect.isclass(f) or n in EXEMPT_MULTI:
            continue
        out.append(n)
    return out


def call_two(name, x_of, y_of):
    """call entry point `name` on two arrays; x_of/y_of(dtype, shape, chunks) build them. Returns result or raises."""
    import cubed
    import cubed.array_api as xp

    f = getattr(xp, name, None) or getattr(cubed, name, None)
    special = {
        "concat": lambda d: f([x_of(d), y_of(d)]),
        "stack": lambda d: f([x_of(d), y_of(d)]),
        "where": lambda d: f(x_of("bool"), x_of(d), y_of(d)),
        "where[cond]": lambda d: xp.where(y_of("bool"), x_of(d), x_of(d)),
        "clip": lambda d: f(x_of(d), y_of(d), None),
        "clip[max]": lambda d: xp.clip(x_of(d), None, y_of(d)),
        "matmul": lambda d: f(x_of(d, (4, 4), (2, 2)), y_of(d, (4, 4), (2, 2))),
        "tensordot": lambda d: f(x_of(d, (4, 4), (2, 2)), y_of(d, (4, 4), (2, 2))),
        "vecdot": lambda d: f(x_of(d), y_of(d)),
        "isin": lambda d: f(x_of(d), y_of(d)),
        "searchsorted": lambda d: f(x_of(d), y_of(d)),
        "take": lambda d: f(x_of(d), y_of("int64"), axis=0),
        "map_blocks": lambda d: cubed.map_blocks(lambda a, b: a, x_of(d), y_of(d), dtype="float64"),
        "apply_gufunc": lambda d: cubed.apply_gufunc(lambda a, b: a + b, "(),()->()", x_of(d), y_of(d), output_dtypes="float64"),
        "linalg.outer": lambda d: __import__("cubed.array_api.linalg", fromlist=["outer"]).outer(x_of(d), y_of(d)),
        "Array.__add__": lambda d: x_of(d) + y_of(d),
        "Array.__matmul__": lambda d: x_of(d, (4, 4), (2, 2)) @ y_of(d, (4, 4), (2, 2)),
        "Array.__setitem__?": None,
        "compute[plan]": lambda d: __import__("cubed.core.array", fromlist=["plan"]).plan(x_of(d), y_of(d)),
        "store": lambda d: cubed.store([x_of(d), y_of(d)], [G.ZStub((4,), (2,), "float64"), G.ZStub((4,), (2,), "float64")], compute=False),
        "arrays_to_plan": lambda d: __import__("cubed.core.plan", fromlist=["arrays_to_plan"]).arrays_to_plan(x_of(d), y_of(d)),
    }
    if name in special:
        fn = special[name]
    else:
        fn = lambda d: f(x_of(d), y_of(d))  # noqa: E731
    last = None
    for d in ("float64", "int64", "bool"):
        try:
            return fn(d)
        except TypeError as ex:
            last = ex
            continue
    raise last


MANUAL_TWO = ["where[cond]", "clip[max]", "map_blocks", "apply_gufunc", "linalg.outer", "Array.__add__", "Array.__matmul__", "compute[plan]", "store", "arrays_to_plan"]


# entry points called with a NON-cubed operand (numpy array / Python scalar) next to a cubed array: the coercion of the foreign
# operand has to use the cubed operand's spec wherever that operand stands (C19: helper arrays receive the operands' spec)
def _np(n=2):
    import numpy as np

    return np.ones(n)


MIXED = {
    "map_blocks[numpy,cubed]": lambda x: __import__("cubed").map_blocks(lambda a, b: a + b, _np(), x, dtype="float64"),
    "map_blocks[cubed,numpy]": lambda x: __import__("cubed").map_blocks(lambda a, b: a + b, x, _np(), dtype="float64"),
    "map_blocks[scalar,cubed]": lambda x: __import__("cubed").map_blocks(lambda a, b: a + b, 1.0, x, dtype="float64"),
    "map_blocks[numpy,cubed,block_id]": lambda x: __import__("cubed").map_blocks(lambda a, b, block_id=None: a + b, _np(), x, dtype="float64"),
    "map_blocks[scalar,numpy,cubed]": lambda x: __import__("cubed").map_blocks(lambda a, b, c: a + b + c, 2.0, _np(), x, dtype="float64"),
    "apply_gufunc[numpy,cubed]": lambda x: __import__("cubed").apply_gufunc(lambda a, b: a + b, "(),()->()", _np(4), x.rechunk((4,)), output_dtypes="float64"),
    "where[cond,cubed,scalar]": lambda x: __import__("cubed.array_api", fromlist=["where"]).where(x > 0, x, 0.0),
    "where[cond,scalar,cubed]": lambda x: __import__("cubed.array_api", fromlist=["where"]).where(x > 0, 1.0, x),
    "maximum[cubed,scalar]": lambda x: __import__("cubed.array_api", fromlist=["maximum"]).maximum(x, 1.0),
    "maximum[scalar,cubed]": lambda x: __import__("cubed.array_api", fromlist=["maximum"]).maximum(1.0, x),
    "clip[cubed,scalar,cubed]": lambda x: __import__("cubed.array_api", fromlist=["clip"]).clip(x, 0.0, x),
    "Array.__radd__[scalar]": lambda x: 1.0 + x,
    "Array.__rpow__[scalar]": lambda x: 2.0 ** x,
    "Array.__gt__[scalar]": lambda x: x > 0,
}


def call_mixed(name, x):
    return MIXED[name](x)


def discover_mixed_entry_points():
    G.install()
    spec = config_spec()
    names = []
    for n in MIXED:
        G.reset_names()
        try:
            r = call_mixed(n, _arr("x", spec))
        except Exception:  # noqa: BLE001
            continue
        if r is not None:
            names.append(n)
    return names


def config_spec():
    """the Spec object cubed builds (and caches) from the global configuration: what arrays get when no spec is passed"""
    from cubed import config
    from cubed.spec import spec_from_config

    return spec_from_config(config)


def discover_two_array_entry_points():
    """names of entry points that accept two arrays built under the default configuration (classified by calling them)"""
    G.install()
    spec = config_spec()
    names = []
    for n in binary_candidates() + MANUAL_TWO:
        G.reset_names()
        try:
            r = call_two(n, lambda d, s=(4,), c=(2,): _arr("x", spec, d, s, c), lambda d, s=(4,), c=(2,): _arr("y", spec, d, s, c))
        except Exception:  # noqa: BLE001 - not a two-array entry point (wrong arity / argument kinds)
            continue
        if r is None:
            continue
        names.append(n)
    return names


def call_one(name, x):
    import cubed
    import cubed.array_api as xp

    f = getattr(xp, name, None) or getattr(cubed, name, None)
    special = {
        "broadcast_to": lambda: f(x, (2, 4)),
        "expand_dims": lambda: f(x, axis=0),
        "reshape": lambda: f(x, (2, 2)),
        "permute_dims": lambda: f(xp.reshape(x, (2, 2)), (1, 0)),
        "moveaxis": lambda: f(xp.reshape(x, (2, 2)), 0, 1),
        "repeat": lambda: f(x, 2),
        "roll": lambda: f(x, 1),
        "tile": lambda: f(x, (2,)),
        "squeeze": lambda: f(xp.expand_dims(x, axis=0), axis=0),
        "astype": lambda: f(x, "float32"),
        "full_like": lambda: f(x, 1.0),
        "tril": lambda: f(xp.reshape(x, (2, 2))),
        "triu": lambda: f(xp.reshape(x, (2, 2))),
        "matrix_transpose": lambda: f(xp.reshape(x, (2, 2))),
        "unstack": lambda: f(xp.reshape(x, (2, 2))),
        "take": lambda: f(x, xp.asarray([0, 1], spec=x.spec), axis=0),
        "clip": lambda: f(x, 0.0, 1.0),
        "diff": lambda: f(x),
        "cumulative_sum": lambda: f(x, axis=0),
        "cumulative_prod": lambda: f(x, axis=0),
        "pad": lambda: cubed.pad(x, ((1, 1),), mode="constant"),
        "map_overlap": lambda: cubed.map_overlap(lambda a: a, x, dtype=x.dtype, depth=1, boundary=0.0, trim=True),
        "rechunk": lambda: cubed.rechunk(x, (4,)) if hasattr(cubed, "rechunk") else x.rechunk((4,)),
        "Array.__getitem__": lambda: x[1:3],
        "Array.__add__scalar": lambda: x + 1,
        "Array.__radd__scalar": lambda: 2.0 * x,
        "Array.T": lambda: xp.reshape(x, (2, 2)).T,
        "searchsorted[scalar-like]": lambda: xp.searchsorted(x, xp.asarray([1.0, 2.0], spec=x.spec)),
        "linalg.qr": lambda: __import__("cubed.array_api.linalg", fromlist=["qr"]).qr(xp.reshape(x, (2, 2))),
        "isin[list]": lambda: xp.isin(x, xp.asarray([1.0], spec=x.spec)),
        "nanmean": lambda: cubed.nanmean(x),
        "nansum": lambda: cubed.nansum(x),
        "random?": None,
    }
    if name in special:
        return special[name]()
    return f(x)


MANUAL_ONE = ["pad", "map_overlap", "rechunk", "Array.__getitem__", "Array.__add__scalar", "Array.__radd__scalar", "Array.T", "searchsorted[scalar-like]",
              "linalg.qr", "isin[list]", "nanmean", "nansum"]


def discover_one_array_entry_points():
    G.install()
    spec = config_spec()
    names = []
    for n in binary_candidates() + MANUAL_ONE:
        G.reset_names()
        x = _arr("x", spec)
        ok = False
        for d in ("float64", "int64", "bool"):
            try:
                x = _arr("x", spec, d)
                r = call_one(n, x)
                ok = r is not None
                break
            except TypeError:
                continue
            except Exception:  # noqa: BLE001
                break
        if ok:
            names.append(n)
    return names
