"""C17 -- unsupported requests are refused up front; accepted plans do not fail mid-run.

Same real construction path on symbolic geometry as C01/C12.  Decided here:
 (i)  an exception escaping *construction* is a ValueError, TypeError, NotImplementedError or IndexError -- in
      particular no AssertionError / KeyError / ZeroDivisionError ... is reachable from NumPy-evaluable arguments;
 (ii) a construction that succeeds yields operations none of whose tasks can fail for a reason knowable from the
      geometry: every key names an existing block, the key function and the block function raise for no block
      coordinate, block shapes fit their regions.
"""
from __future__ import annotations

from engine import sx
from engine.obligation import Obl
from harness import c01

EXPLANATION = (
    "bounded symbolic execution (sx/z3) of the real construction path and of one task of every operation at a symbolic block "
    "coordinate: the type and phase (build vs. task) of every reachable exception is decided for all geometries in the bound"
)
TRUSTED_BASE = c01.TRUSTED_BASE
ASSUMPTIONS = ["failures inside NumPy for data-dependent reasons (all-NaN slice), executor and storage faults are outside"]


def obligations(tier):
    N = 6 if tier == "quick" else 10
    wall = 600 if tier == "quick" else 3000
    B = N + 6
    obls = []
    scen = dict(c01.SCENARIOS)
    scen.update(c01.EXTRA_SCENARIOS)
    from harness import c01b  # second catalogue + scenarios that only state shapes (isin, searchsorted)

    scen.update({k: v for k, v in c01b.SCENARIOS.items() if k not in c01b.ROUTE_ONLY})
    scen.update(c01b.SHAPE_ONLY)
    for name, (fn, vs) in scen.items():
        obls.append(
            Obl(
                f"phase[{name}]",
                c01.wrap(fn, "tasks", False),
                vs(N) + [("blk0", 0, B), ("blk1", 0, 3)],
                allowed=c01.ALLOWED,
                setup=c01.setup,
                functions=c01._functions(),
                bounds=f"lengths/chunk sizes up to {N} per symbolic dim (cumulative_sum up to {N + 6}), every block coordinate of every operation",
                outside="data-dependent failures inside NumPy; executor/storage faults; >2 dims",
                stubs=["anp.Namespace (nxp)", "indexer_model", "np integer kernels"],
                wall_s=wall,
                witness_rule=lambda m: m.get("n", m.get("n1", 0)) >= 2,
            )
        )
    fn, vs = c01.SCENARIOS["index[slice]"]

    def twin(**kw):
        c01.wrap(fn, "tasks", False)(**kw)
        raise sx.Violated("reached-end-of-task-walk")

    obls.append(Obl("twin:phase[index[slice]]", twin, vs(N) + [("blk0", 0, B), ("blk1", 0, 3)], allowed=c01.ALLOWED, setup=c01.setup, twin_of="phase[index[slice]]", wall_s=wall))
    return obls
