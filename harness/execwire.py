"""Executor wiring (C07 barrier, C13 events, C08 attempts, C06 serialized form): the REAL
ThreadsExecutor._async_execute_dag / ProcessesExecutor._async_execute_dag run on a real finalized plan, with only the worker pool
replaced: StubPool.submit() receives exactly what the executor hands to concurrent.futures (the retry-wrapped stage function for
threads; unpickle_and_call + cloudpickled function/input/kwargs for processes).  For every submission the pool
  * identifies the operation from the `config` the executor passes and checks that function and config belong to the SAME operation
    of the plan and that the input is one of that operation's tasks (after a real cloudpickle round trip for processes),
  * really calls the submitted callable with the stage function replaced by a recording one that fails k times (k symbolic) and
    counts the attempts (retries+1 bound for threads; exactly one attempt for processes),
  * hands a sched future to the event loop stub, so that completion subsets / orders / clock stay solver variables.
The trace is then checked against the C07 barrier and the C13 event contract."""
from __future__ import annotations

from engine import loader, sx
from harness import c07
from stubs import sched


class _WrapShim:
    FIRST_COMPLETED = "FIRST_COMPLETED"

    @staticmethod
    def wrap_future(f):
        return f

    wait = sched.ShimAsyncio.wait
    Future = sched.Fut


class StubPool:
    def __init__(self, world, by_config, by_func, info, kfail, mode, log):
        self.w = world
        self.by_config = by_config
        self.by_func = by_func
        self.info = info
        self.kfail = kfail
        self.mode = mode
        self.log = log
        self.shut = False

    def __call__(self, max_workers=None, **kw):  # stands for the ThreadPoolExecutor / ProcessPoolExecutor class
        self.log["max_workers"] = max_workers
        self.log["pool_kwargs"] = kw
        return self

    def shutdown(self, wait=True):
        self.shut = True

    def submit(self, fn, *args, **kwargs):
        if self.mode == "processes":
            import cloudpickle

            sx.require(getattr(fn, "__name__", "") == "unpickle_and_call", "processes-executor-submits-something-else", repr(fn))
            real_fn = cloudpickle.loads(args[0])
            inp = cloudpickle.loads(args[1])
            kw = {k: cloudpickle.loads(v) for k, v in kwargs.items()}
        else:
            real_fn, inp, kw = fn, args[0], dict(kwargs)
        cfg, func = kw.get("config"), kw.get("func")
        # which operation is this?  (pickling creates copies: identify by the operation's write targets / function name)
        op = None
        for name, (c, f) in self.by_config.items():
            if self.mode == "processes":
                same = (c is None and cfg is None) or (c is not None and cfg is not None and _cfg_sig(c) == _cfg_sig(cfg))
            else:
                same = c is cfg
            if same:
                op = name
                break
        sx.require(op is not None, "task-submitted-with-a-config-of-no-operation", repr(cfg)[:200])
        pf = self.by_config[op][1]
        if self.mode == "processes":
            sx.require(getattr(func, "__name__", None) == getattr(pf, "__name__", None), "task-submitted-with-another-operation's-function", f"{op}: {func} vs {pf}")
        else:
            sx.require(func is pf, "task-submitted-with-another-operation's-function", f"{op}: {func} vs {pf}")
        key = tuple(inp) if isinstance(inp, (list, tuple)) else ("obj", type(inp).__name__, getattr(inp, "name", None))
        tasks = self.info[op]["keys"]
        sx.require(key in tasks, "task-input-not-a-task-of-the-operation", f"{op}: {key} not in {tasks}")
        # really run what was submitted, with a recording stage function that fails kfail times
        calls = {"n": 0}

        def stage(i, config=None):
            calls["n"] += 1
            if calls["n"] <= self.kfail:
                raise sched.TaskError(key, calls["n"])
            return None

        kw2 = dict(kw)
        kw2["func"] = stage
        err = None
        try:
            real_fn(inp, **kw2)
        except sched.TaskError as ex:
            err = ex
        self.log.setdefault("attempts", []).append((op, calls["n"], err is None))
        f = self.w.new_future(key, False, op)
        return f


def _cfg_sig(c):
    wm = getattr(c, "writes_map", None)
    return (type(c).__name__, tuple(sorted(wm)) if wm else None, getattr(c, "num_input_blocks", None))


_RELOADED = {}


def _load(mode):
    if mode in _RELOADED:
        return _RELOADED[mode]
    import cubed.runtime.executors.local as crl

    amd = c07._load()
    tcf = loader.reload(crl.threads_create_futures_func, {"asyncio": _WrapShim})
    pcf = loader.reload(crl.processes_create_futures_func, {"asyncio": _WrapShim})
    _RELOADED[mode] = (amd, tcf, pcf)
    return _RELOADED[mode]


def run(mode, dagname, optimize, par, batch, retries, kfail, outcomes, dts, perms, max_running):
    import cubed
    import cubed.runtime.executors.local as crl

    amd, tcf, pcf = _load(mode)
    dag, info, producers = c07.build_dag(dagname, optimize)
    info = {o: dict(d, keys=[t if isinstance(t, tuple) else None for t in d["tasks"]]) for o, d in info.items()}
    by_config, by_func = {}, {}
    for n, d in dag.nodes(data=True):
        if "primitive_op" in d or d.get("pipeline") is not None:
            p = d["pipeline"]
            by_config[n] = (p.config, p.function)
            keys = []
            for m in p.mappable:
                keys.append(tuple(m) if isinstance(m, (list, tuple)) else ("obj", type(m).__name__, getattr(m, "name", None)))
            info.setdefault(n, {"num_tasks": len(keys), "tasks": keys})
            info[n]["keys"] = keys
            info[n]["tasks"] = keys
    w = sched.WORLD = sched.World(outcomes, dts, perms, max_running)
    w.max_fail = 0
    log = {}
    pool = StubPool(w, by_config, by_func, info, kfail, mode, log)
    cb = c07.Rec(w.events)
    parv = [None, False, True][par]
    batchv = [None, 1, 2][batch]
    call_kw = {}
    if batchv is not None:
        call_kw["batch_size"] = batchv
    spec = cubed.Spec(work_dir="/nonexistent-verif", allowed_mem=1000, reserved_mem=0)
    if mode == "threads":
        cls = crl.ThreadsExecutor
        meth = loader.reload(cls._async_execute_dag, {"ThreadPoolExecutor": pool, "async_map_dag": amd, "threads_create_futures_func": tcf})
        call_kw["retries"] = retries
    else:
        cls = crl.ProcessesExecutor
        meth = loader.reload(cls._async_execute_dag, {"ProcessPoolExecutor": pool, "async_map_dag": amd, "processes_create_futures_func": pcf})
    ex = cls.__new__(cls)
    ex.kwargs = {}
    co = meth(ex, dag, callbacks=[cb], spec=spec, compute_arrays_in_parallel=parv, max_workers=3, **call_kw)
    try:
        sched.run_coro(co)
    except sched.TaskError:
        return None, info, producers, log, pool
    return w.events, info, producers, log, pool


def make(mode, dagname, optimize, n_o, n_d, n_p, max_running, twin=False):
    def h(**kw):
        outcomes = [kw[f"o{k}"] for k in range(n_o)]
        dts = [kw[f"d{k}"] for k in range(n_d)]
        perms = [kw[f"p{k}"] for k in range(n_p)]
        par, batch = sx.conc(kw["par"]), sx.conc(kw["batch"])
        retries, kfail = sx.conc(kw["retries"]), sx.conc(kw["kfail"])
        trace, info, producers, log, pool = run(mode, dagname, optimize, par, batch, retries, kfail, outcomes, dts, perms, max_running)
        for op, n, ok in log.get("attempts", []):
            if mode == "threads":
                sx.require(n <= retries + 1, "more-than-retries+1-attempts", f"{op}: {n} attempts with retries={retries}")
                sx.require(n == min(kfail + 1, retries + 1), "attempt-count-differs-from-min(k+1,retries+1)", f"{op}: {n} attempts, k={kfail}, retries={retries}")
                sx.require(ok == (kfail <= retries), "retry-outcome-wrong", f"{op}: ok={ok} k={kfail} retries={retries}")
            else:
                sx.require(n == 1, "processes-executor-attempt-count", f"{op}: {n}")
        sx.require(log.get("max_workers") == 3, "max_workers-not-forwarded-to-the-pool", str(log.get("max_workers")))
        if trace is None:
            return
        sx.require(pool.shut, "pool-not-shut-down")
        sx.note(trace)
        info2 = {o: d for o, d in info.items()}
        c07.check_barrier(trace, info2, producers)
        c07.check_events(trace, info2)
        kinds = [e[0] for e in trace]
        if twin:
            raise sx.Violated("reached-end-of-dag")

    return h


def obligations(tier, fns, wall):
    from engine.obligation import Obl
    import cubed.runtime.executors.local as crl

    o = []
    # few order choices (n_p): the interleavings are barrier[...]'s subject; here every option combination meets a handful of schedules
    combos = [("threads", "diamond", 0, 30, 40, 6, 0), ("processes", "chain-unequal", 0, 30, 40, 6, 1), ("threads", "multi-output", 1, 30, 40, 6, 0)]
    if tier != "quick":
        combos = [(m, dn, opt, 40, 60, 12, 2) for m in ("threads", "processes") for dn in ("chain-unequal", "diamond", "independent", "multi-output", "rechunk-then-add") for opt in (0, 1)]
    for mode, dn, opt, n_o, n_d, n_p, mr in combos:
        # the full retries x failures range is C08's executor-retry-budget obligation; here the schedule is the subject
        rk = (1, 1) if tier == "quick" else (2, 3)
        vs = c07.vars_(n_o, n_d, n_p) + [("par", 0, 2), ("batch", 0, 2), ("retries", 0, rk[0]), ("kfail", 0, 0 if mode == "processes" else rk[1])]
        o.append(Obl(f"executor-wiring[{mode},{dn},optimize={opt}]", make(mode, dn, opt, n_o, n_d, n_p, mr), vs, setup=c07.setup,
                     functions=fns + [crl.ThreadsExecutor._async_execute_dag, crl.ProcessesExecutor._async_execute_dag, crl.threads_create_futures_func,
                                      crl.processes_create_futures_func, crl.unpickle_and_call, crl.run_func_threads, crl.run_func_processes, crl.check_runtime_memory],
                     wall_s=wall,
                     bounds=f"real {mode} executor entry (_async_execute_dag) on plan '{dn}' (optimize_graph={bool(opt)}); compute_arrays_in_parallel None/False/True, batch_size None/1/2, "
                            f"retries 0..{rk[0]}, 0..{rk[1]} failures of every stage call (threads), schedules as in barrier[...] (<= {n_o} observations, <= {mr} 'still running')",
                     outside="the worker pool itself (ThreadPoolExecutor / ProcessPoolExecutor -> StubPool: submit() runs the submitted callable once on a recording stage function and hands back a scheduler-stub future); memray/timing decorators run for real",
                     stubs=["StubPool", "sched.ShimAsyncio", "sched.ShimTime", "sched.ShimStream"],
                     witness_rule=lambda m: m.get("kfail", 0) >= 1 or m.get("batch", 0) >= 1))
    o.append(Obl("twin:executor-wiring[threads,diamond]", make("threads", "diamond", 0, 30, 40, 6, 0, twin=True),
                 c07.vars_(30, 40, 6) + [("par", 0, 2), ("batch", 0, 2), ("retries", 0, 1), ("kfail", 0, 1)], setup=c07.setup,
                 twin_of="executor-wiring[threads,diamond,optimize=0]", wall_s=wall))
    return o
