"""C09 -- resume after a crash gives the same result and never trusts an incomplete array.

Real code: FinalizedPlan.execute (resume branch), already_computed, skip_node, visit_nodes, visit_node_generations,
create_zarr_array (mode), open_zarr_v3_array's create-or-open branch.  The plans are real (real construction + real
finalization, optimize on/off, multi-output ops); the STORE STATE of every produced array is symbolic:
nchunks_initialized in [0, nchunks], zero-dimensional or not, the completeness attribute present or not, the array
present or absent -- this over-approximates every crash point at task and at chunk-write granularity.
"""
from __future__ import annotations

from engine import sx
from engine.obligation import Obl
from harness import plans as P

EXPLANATION = (
    "bounded symbolic execution (sx/z3) of the real resume logic on real finalized plans with an arbitrary (symbolic) store state per "
    "produced array: which operations are skipped / executed, in which order, and when the resume is refused, is decided for every "
    "store state, i.e. for every crash point of a previous run"
)
TRUSTED_BASE = ["store-state stub (ndim, nchunks, nchunks_initialized, attribute absent, array absent): pure contract of the property"]
ASSUMPTIONS = ["what Zarr's nchunks_initialized returns for a half-written key is the storage contract (empty chunks are always written: zarr config in zarr_python_v3.py, checked)",
               "equality of values with a clean run follows from 'every executed op reads complete inputs' together with C06 (idempotent, order-independent tasks)"]


class StoreState:
    def __init__(self, name, ndim, nchunks, init, has_attr):
        self.name = name
        self.ndim = ndim
        self.nchunks = nchunks
        self.shape = (4,) * ndim
        self.nbytes = 0
        if has_attr:
            self.nchunks_initialized = init


def _lazy_absent():
    from cubed.storage.zarr import LazyZarrArray

    try:
        from zarr.errors import ArrayNotFoundError
    except ImportError:  # pragma: no cover
        ArrayNotFoundError = FileNotFoundError

    class Absent(LazyZarrArray):
        def __init__(self):  # noqa: D401 - no metadata needed
            self.shape = (4,)
            self.chunks = (2,)
            import numpy as np

            self.dtype = np.dtype("float64")

        def open(self):
            raise ArrayNotFoundError("no such array")

    return Absent()


class VisitExecutor:
    """enters the real traversal functions and records which operations would run, in order"""

    name = "visit"

    def __init__(self):
        self.ran = None
        self.gens = None

    def execute_dag(self, dag, **kw):
        from cubed.runtime.pipeline import visit_node_generations, visit_nodes

        self.ran = [n for n, _ in visit_nodes(dag)]
        self.gens = [[n for n, _ in g] for g in visit_node_generations(dag)]


def resume_h(topology, optimize, resume, **kw):
    from cubed.storage.zarr import LazyZarrArray

    outs, _ = P.build(topology)
    fp = P.plan_of(outs)._finalize(optimize_graph=bool(optimize))
    dag = fp.dag
    ops = [n for n, d in dag.nodes(data=True) if "primitive_op" in d]
    produced = []  # (array node, producer op)
    for n in ops:
        for a in dag.successors(n):
            if dag.nodes[a].get("target", None) is not None:
                produced.append((a, n))
    produced.sort()
    state = {}
    for k, (a, n) in enumerate(produced):
        tgt = dag.nodes[a]["target"]
        nchunks = tgt.nchunks
        present = sx.conc(kw[f"present{k}"]) == 1
        has_attr = sx.conc(kw[f"attr{k}"]) == 1
        nd0 = sx.conc(kw[f"zerod{k}"]) == 1
        init = kw[f"init{k}"]
        sx.assume(init <= nchunks)
        if not present:
            dag.nodes[a]["target"] = _lazy_absent()
            state[a] = {"complete": False, "attr": True, "present": False}
        else:
            dag.nodes[a]["target"] = StoreState(a, 0 if nd0 else 1, nchunks, init, has_attr)
            state[a] = {"complete": (not nd0) and has_attr and None, "attr": has_attr, "present": True, "nd0": nd0, "init": init, "nchunks": nchunks}
    for k in range(len(produced), 6):
        for v in ("present", "attr", "zerod", "init"):
            sx.assume(kw[f"{v}{k}"] == (1 if v in ("present", "attr") else 0))

    def complete(a):
        st = state[a]
        if not st["present"]:
            return False
        if st["nd0"]:
            return False
        return st["init"] == st["nchunks"]

    ex = VisitExecutor()
    try:
        fp.execute(executor=ex, resume=bool(resume))
        refused = False
    except NotImplementedError:
        refused = True
    lacks = [a for a, st in state.items() if st["present"] and not st["attr"]]
    if refused:
        sx.require(bool(resume), "refused-without-resume")
        sx.require(len(lacks) > 0, "resume-refused-although-storage-reports-completeness")
        sx.require(ex.ran is None, "executor-entered-before-the-refusal")
        return
    if resume and lacks:
        # not refused although some array cannot report completeness: legitimate only if that array was never consulted
        # (an earlier output of the same op was already found incomplete); then its producer must be executed
        for a in lacks:
            prod = [n for (b, n) in produced if b == a][0]
            sx.require(prod in ex.ran, "array-without-completeness-information-was-trusted", f"{a} produced by {prod}")
    ran = ex.ran
    sx.require(ran is not None, "executor-not-entered")
    # create-arrays is never skipped
    if "create-arrays" in ops:
        sx.require(ran and ran[0] == "create-arrays", "array-creation-step-skipped-or-not-first", f"{ran}")
    by_op = {}
    for a, n in produced:
        by_op.setdefault(n, []).append(a)
    for n in ops:
        if n == "create-arrays":
            continue
        outs_ = by_op.get(n, [])
        if not resume:
            sx.require(n in ran, "operation-skipped-without-resume", n)
            continue
        if any(a in lacks for a in outs_):
            continue  # handled above
        all_complete = sx.sand(*[complete(a) for a in outs_]) if outs_ else False
        if all_complete:
            sx.require(n not in ran, "completely-written-array-recomputed", f"{n} -> {outs_}")
        else:
            sx.require(n in ran, "operation-with-incomplete-output-skipped", f"{n} -> {outs_}: {[(state[a].get('init'), state[a].get('nchunks')) for a in outs_]}")
    # dependency order, and every executed op reads complete inputs
    pos = {n: k for k, n in enumerate(ran)}
    for n in ran:
        for arr in dag.predecessors(n):
            for p in dag.predecessors(arr):
                if p not in ops:
                    continue
                if p in pos:
                    sx.require(pos[p] < pos[n], "operation-ran-before-its-producer", f"{p} !< {n}")
                elif arr in state:
                    sx.require(complete(arr), "executed-operation-reads-an-incomplete-array-whose-producer-was-skipped", f"{n} reads {arr}")
    flat = [n for g in ex.gens for n in g]
    sx.require(sorted(flat) == sorted(ran), "visit_nodes-and-visit_node_generations-disagree", f"{ran} vs {ex.gens}")
    gi = {n: k for k, g in enumerate(ex.gens) for n in g}
    for n in flat:
        for arr in dag.predecessors(n):
            for p in dag.predecessors(arr):
                if p in gi:
                    sx.require(gi[p] < gi[n], "generation-contains-an-operation-and-its-producer", f"{p}, {n}")


def create_or_open(exists, mode_k):
    """array creation is open-or-create and never truncates: create_zarr_array uses mode 'a'; open_zarr_v3_array with
    mode 'a' opens an existing array instead of overwriting it"""
    import cubed.storage.stores.zarr_python_v3 as zs
    from cubed.core.plan import create_zarr_array

    calls = []

    class LZ:
        def create(self, mode=None):
            calls.append(mode)

    create_zarr_array(LZ())
    sx.require(calls == ["a"], "array-creation-does-not-use-open-or-create-mode", f"{calls}")
    mode = ["a", "w-", "r+", "r"][sx.conc(mode_k)]
    ex = sx.conc(exists) == 1
    log = []

    class _Opened:
        """the array an earlier run of the same plan left at the path: it has the declared layout (the fake used to return the bare string
        'opened'; since fix 13b71d9 the code under test reads shape / chunks / dtype of what it opens)"""

        shape, chunks, dtype = (4,), (2,), __import__("numpy").dtype("float64")

        def __eq__(self, other):
            return other == "opened"

        __hash__ = None

    class FakeZarr:
        class errors:
            class ContainsArrayError(Exception):
                pass

        config = zs.zarr.config

        @staticmethod
        def create_array(store=None, shape=None, dtype=None, chunks=None, name=None, **kw):
            log.append(("create", tuple(sorted(kw))))
            if kw.get("overwrite"):
                raise sx.Violated("create_array-called-with-overwrite")
            if ex:
                raise FakeZarr.errors.ContainsArrayError("exists")
            return "created"

        @staticmethod
        def open_array(store=None, path=None, **kw):
            log.append(("open",))
            if not ex:
                raise FileNotFoundError("no array")
            return _Opened()

    from engine import loader

    fn = loader.reload(zs.open_zarr_v3_array, {"zarr": FakeZarr, "obstore": None})
    import numpy as np

    try:
        r = fn("mem://x", mode, shape=(4,), dtype=np.dtype("float64"), chunks=(2,), path="a")
    except FakeZarr.errors.ContainsArrayError:
        sx.require(ex and mode != "a" and mode not in ("r", "r+"), "existing-array-not-opened-in-mode-a")
        return
    except FileNotFoundError:
        sx.require((not ex) and mode in ("r", "r+"), "missing-array-error-in-a-creating-mode")
        return
    if mode in ("r", "r+"):
        sx.require(r == "opened" and log == [("open",)], "read-mode-created-an-array", f"{log}")
    elif ex:
        sx.require(mode == "a" and r == "opened", "existing-array-was-not-reused", f"{log}")
    else:
        sx.require(r == "created", "array-not-created")


def zarr_config_ok():
    """empty chunks are always written, so that 'all chunks present' means 'fully computed'"""
    import zarr

    import cubed.storage.stores.zarr_python_v3  # noqa: F401

    ok = zarr.config.get("array.write_empty_chunks") is True
    return {"verdict": "holds" if ok else "violated", "paths": 1, "queries": 0, "solver_s": 0.0, "reached": 1, "outcomes": {"ok": 1},
            "counterexamples": [] if ok else [{"model": {}, "label": "violated:write_empty_chunks-not-enabled", "detail": ""}],
            "samples": [{"model": {}, "outcome": "ok", "notes": ["zarr.config array.write_empty_chunks is True after importing the store module"]}],
            "distinct_nontrivial": 1, "inconclusive": [], "harness_errors": [], "exhaustive": True,
            "extra": "configuration side condition (no symbolic input)"}


def obligations(tier):
    import cubed.core.plan as cp
    import cubed.runtime.pipeline as crp
    import cubed.storage.stores.zarr_python_v3 as zs

    fns = [cp.FinalizedPlan.execute, cp.already_computed, crp.skip_node, crp.visit_nodes, crp.visit_node_generations, cp.create_zarr_array, zs.open_zarr_v3_array]
    wall = 600 if tier == "quick" else 3000
    V = []
    for k in range(6):
        V += [(f"present{k}", 0, 1), (f"attr{k}", 0, 1), (f"zerod{k}", 0, 1), (f"init{k}", 0, 4)]
    o = []
    tops = ("chain3", "diamond", "multi-output", "reduce-chain") if tier == "quick" else P.TOPOLOGIES
    for t in tops:
        for opt in (0, 1):
            o.append(Obl(f"resume[{t},optimize={opt}]", (lambda t, opt: lambda **kw: resume_h(t, opt, 1, **kw))(t, opt), V, functions=fns, wall_s=wall,
                         bounds="real finalized plan; per produced array: present/absent, completeness attribute present/absent, 0-d or not, nchunks_initialized 0..nchunks (every crash point at task and chunk-write granularity, over-approximated)",
                         outside="what Zarr reports for a half-written key; values (C06)", stubs=["StoreState", "visiting executor"],
                         witness_rule=lambda m: any(m[f"init{k}"] > 0 for k in range(6))))
    o.append(Obl("no-resume[diamond]", lambda **kw: resume_h("diamond", 0, 0, **kw), V, functions=fns, wall_s=wall, bounds="resume disabled: nothing is skipped whatever the store state"))
    o.append(Obl("create-or-open", create_or_open, [("exists", 0, 1), ("mode_k", 0, 3)], functions=[cp.create_zarr_array, zs.open_zarr_v3_array], wall_s=120,
                 bounds="array exists or not x mode in {a, w-, r+, r}", stubs=["recording zarr.create_array/open_array"]))
    o.append(Obl("zarr-config[write_empty_chunks]", zarr_config_ok, kind="z3", wall_s=60, bounds="configuration constant"))

    def twin(**kw):
        resume_h("chain3", 0, 1, **kw)
        raise sx.Violated("reached-end-of-resume-check")

    o.append(Obl("twin:resume[chain3]", twin, V, twin_of="resume[chain3,optimize=0]", wall_s=wall))
    return o
