"""C14 -- rechunk plans are well-formed, aligned and memory-bounded for every geometry; the planner terminates.

Real functions (run on z3 proxies): consolidate_chunks, _calculate_shared_chunks, calculate_stage_chunks,
_count_intermediate_chunks, calculate_single_stage_io_ops, multistage_rechunking_plan (vendored rechunker),
multspace/_multspace, calculate_regular_stage_chunks, _fix_copy_chunks, multistage_regular_rechunking_plan
(cubed.core.rechunk), _rechunk_plan / rechunk / _rechunk / split_chunks (cubed.core.ops, through the geom backend).
np.geomspace is the real NumPy function, called on endpoints that are forked by value; int/int true division is
exact rational arithmetic under the stated < 2**53 lemma.
"""
from __future__ import annotations

import ast
import importlib
import inspect
import textwrap

from engine import sx
from engine.obligation import Obl
from geom import backend as G
from harness import c01
from harness import storegeom as SG

EXPLANATION = (
    "bounded symbolic execution (sx/z3) of the real planner functions on integer proxies: shape, source/target chunks, itemsize, "
    "min_mem and max_mem are solver variables; well-formedness, alignment and memory invariants of every returned stage (or an "
    "explicit ValueError) are asserted on every path"
)
TRUSTED_BASE = c01.TRUSTED_BASE + ["np.geomspace is the real NumPy function, called on endpoints forked by value (NpShim.geomspace)"]
ASSUMPTIONS = [
    "float lemma: for operands < 2**53, int(a/b) == a//b and comparisons of a/b with integers are exact (SRat)",
    "2-d planner obligations: shape, chunk sizes and itemsize are forked by value (every feasible combination enumerated by the solver), only min_mem/max_mem stay symbolic: products and divisors of two symbolic extents are nonlinear and did not finish in z3 (measured: >600 s)",
]
ALLOWED = (ValueError,)


def setup():
    G.install()


def _mods():
    alg = importlib.import_module("cubed.vendor.rechunker.algorithm")
    cr = importlib.import_module("cubed.core.rechunk")
    return alg, cr


def _prod(xs):
    p = 1
    for x in xs:
        p = p * x
    return p


# ---------------------------------------------------------------------------------------------
def consolidate_nd(nd, with_limits, **kw):
    alg, _ = _mods()
    shape = tuple(kw[f"n{i}"] for i in range(nd))
    chunks = tuple(kw[f"c{i}"] for i in range(nd))
    isz = kw["isz"]
    mm = kw["mm"]
    for n, c in zip(shape, chunks):
        sx.assume(c <= n)
    limits = None
    if with_limits:
        limits = []
        for i in range(nd):
            lk = sx.conc(kw[f"lk{i}"])  # 0: None, 1: -1, 2: explicit value
            if lk == 0:
                limits.append(None)
            elif lk == 1:
                limits.append(-1)
            else:
                lv = kw[f"l{i}"]
                sx.assume(lv >= chunks[i])  # documented validity: chunks <= limit
                limits.append(lv)
    must_refuse = isz * _prod(chunks) > mm
    try:
        r = alg.consolidate_chunks(shape, chunks, isz, mm, limits)
    except ValueError:
        sx.require(must_refuse, "consolidate-refused-a-feasible-request", f"shape={shape} chunks={chunks}")
        return
    sx.require(sx.snot(must_refuse), "consolidate-accepted-chunks-over-budget")
    sx.require(len(r) == nd, "wrong-rank")
    sx.require(isz * _prod(r) <= mm, "consolidated-chunk-exceeds-max_mem", f"{r}")
    for i in range(nd):
        sx.require(sx.sand(r[i] >= chunks[i], r[i] <= shape[i]), "consolidated-chunk-out-of-range", f"dim {i}: {r[i]}")
        ub = shape[i]
        if limits is not None:
            if limits[i] is None:
                sx.require(r[i] == chunks[i], "axis-without-limit-was-consolidated", f"dim {i}")
                continue
            if limits[i] != -1:
                ub = sx.ite(limits[i] < shape[i], limits[i], shape[i]) if isinstance(limits[i], sx.SInt) or isinstance(shape[i], sx.SInt) else min(limits[i], shape[i])
                sx.require(r[i] <= ub, "consolidated-chunk-exceeds-limit", f"dim {i}")
        # lines up with the source chunks: an integer multiple of them, or the full upper bound
        sx.require(sx.sor(r[i] % chunks[i] == 0, r[i] == ub), "consolidated-chunk-not-aligned-with-source-chunks", f"dim {i}: {r[i]} vs {chunks[i]}")


def plan_nd(nd, regular, **kw):
    """multistage planner (both variants): stage list well-formed, aligned and memory-bounded"""
    alg, cr = _mods()
    shape = tuple(kw[f"n{i}"] for i in range(nd))
    src = tuple(kw[f"c{i}"] for i in range(nd))
    tgt = tuple(kw[f"t{i}"] for i in range(nd))
    isz, mn, mx = kw["isz"], kw["mn"], kw["mx"]
    for n, c, t in zip(shape, src, tgt):
        sx.assume(c <= n)
        sx.assume(t <= n)
    if nd >= 2 or kw.get("_fork_chunks"):
        # chunk sizes and itemsize are forked by value (solver-enumerated): products and divisors become constants,
        # shape and the memory budgets stay symbolic
        src = tuple(sx.conc(c) for c in src)
        tgt = tuple(sx.conc(t) for t in tgt)
        isz = sx.conc(isz)
        # all but the first dimension of the shape are forked too (products of two symbolic extents are nonlinear)
        shape = tuple(sx.conc(n) for n in shape)
    must_refuse = sx.sor(isz * _prod(src) > mx, isz * _prod(tgt) > mx, mx < mn)
    fn = cr.multistage_regular_rechunking_plan if regular else alg.multistage_rechunking_plan
    import warnings

    try:
        with warnings.catch_warnings():
            warnings.simplefilter("ignore")
            stages = fn(shape, src, tgt, isz, mn, mx)
    except ValueError:
        sx.require(must_refuse, "planner-refused-a-feasible-request", f"shape={shape} src={src} tgt={tgt} isz={isz} mn={mn} mx={mx}")
        return
    sx.require(sx.snot(must_refuse), "planner-accepted-an-infeasible-request")
    sx.require(len(stages) >= 1, "empty-plan")
    sx.note(("stages", stages))
    if kw.get("_twin_multi") and len(stages) >= 2:
        raise sx.Violated("reached-a-multi-stage-plan", f"{stages}")
    for si, (rd, it, wr) in enumerate(stages):
        for nm, ch in (("read", rd), ("int", it), ("write", wr)):
            sx.require(len(ch) == nd, "wrong-rank")
            sx.require(isz * _prod(ch) <= mx, f"{nm}-chunk-exceeds-max_mem", f"stage {si}: {ch}")
            for i in range(nd):
                sx.require(sx.sand(ch[i] >= 1, ch[i] <= shape[i]), f"{nm}-chunk-out-of-range", f"stage {si} dim {i}: {ch[i]}")
        for i in range(nd):
            sx.require(it[i] == sx.smin(rd[i], wr[i]), "intermediate-is-not-min(read,write)", f"stage {si} dim {i}")
    # starts at the source chunking (read chunks >= source chunks: whole source chunks or more are read; reads may
    # straddle source chunks, which is safe), ends at a consolidation of the target chunking (writes line up with it)
    rd0 = stages[0][0]
    wrl = stages[-1][2]
    for i in range(nd):
        sx.require(rd0[i] >= sx.smin(src[i], wrl[i]), "first-read-chunks-smaller-than-source-and-write-chunks", f"dim {i}: {rd0[i]} vs {src[i]}")
        sx.require(sx.sor(wrl[i] % tgt[i] == 0, wrl[i] == shape[i]), "last-write-chunks-not-aligned-with-target", f"dim {i}: {wrl[i]} vs {tgt[i]}")
    # consecutive stages are chained
    for a, b in zip(stages, stages[1:]):
        for i in range(nd):
            sx.require(a[2][i] == b[0][i], "stages-not-chained", f"{a[2]} then {b[0]}")
    if regular:
        # regular variant: what one stage writes can be stored on a regular grid that the next copy is aligned with
        for si, (rd, it, wr) in enumerate(stages):
            for i in range(nd):
                sx.require(sx.sor(rd[i] <= wr[i], rd[i] == shape[i], rd[i] % wr[i] == 0), "regular-plan-read-chunks-not-aligned-with-written-chunks", f"stage {si} dim {i}: read {rd[i]} write {wr[i]}")


def rechunk_plan_1d(n, c, t, M, irregular, mn):
    """cubed.core.rechunk.rechunk_plan / ops._rechunk_plan / rechunk on a metadata array: copy ops start at the array's
    chunking and end at the requested chunking; every copy op's projected memory fits (cross-lemma with C04)"""
    c01._start()
    sx.assume(c <= n)
    sx.assume(t <= n)
    _, cr = _mods()
    x = G.stub_array("x", (n,), (c,), spec=SG.spec_with_mem(M))
    kw = {} if sx.conc(mn) == 0 else {"min_mem": mn}
    import warnings

    with warnings.catch_warnings():
        warnings.simplefilter("ignore")
        plan = cr.rechunk_plan(x, (t,), allow_irregular=bool(irregular), **kw)
        out = x.rechunk((t,), allow_irregular=bool(irregular), **kw)
    ops_ = plan.copy_ops
    if c == t:
        sx.require(len(ops_) == 0 and out is x, "rechunk-to-same-chunks-is-not-a-no-op")
        return
    sx.require(len(ops_) >= 1, "no-copy-op-for-a-real-rechunk")
    sx.require(ops_[0].source_chunks[0] == c, "first-copy-does-not-start-at-source-chunking")
    sx.require(ops_[-1].target_chunks[0] == t, "last-copy-does-not-end-at-target-chunking", f"{ops_[-1]}")
    for a, b in zip(ops_, ops_[1:]):
        sx.require(a.target_chunks[0] == b.source_chunks[0], "copy-ops-not-chained")
    sx.require(out.shape[0] == n, "rechunk-result-has-wrong-shape", f"{out.shape}")
    # the result is chunked EXACTLY as requested: every chunk boundary is a multiple of t and there are ceil(n/t) chunks
    # (a rectilinear grid such as (30, 20, 10, 30, ..) starts with the right chunk and is still wrong)
    pos = 0
    for sz in out.chunks[0][:-1]:
        pos = pos + sz
        sx.require(sz == t, "rechunk-result-has-wrong-chunks", f"{out.chunks} requested {t}")
    sx.require(len(out.chunks[0]) == -((-n) // t), "rechunk-result-has-wrong-chunks", f"{out.chunks} requested {t}")
    sx.require(sx.sand(out.chunks[0][-1] >= 1, out.chunks[0][-1] <= t), "rechunk-result-has-wrong-chunks", f"{out.chunks} requested {t}")
    # ... and so is the Zarr array that backs it
    zc = out._zarray.chunks
    if len(zc) and not isinstance(zc[0], (tuple, list)):
        sx.require(zc[0] == t, "rechunk-result-is-backed-by-another-grid", f"backing chunks {zc} requested {t}")
    else:
        sx.require(all(bool(z == t) for z in zc[0][:-1]), "rechunk-result-is-backed-by-another-grid", f"backing chunks {zc} requested {t}")
    # the data part of every accepted copy stage fits the budget the planner derived from the spec:
    # (1 input + read copies) + 1 processing + (1 output + write copies) copies of the copy chunk
    for co in ops_:
        sx.require(5 * 8 * co.copy_chunks[0] <= M, "accepted-copy-chunk-exceeds-the-derived-budget", f"{co}")
    # every copy op: grid lemma at a symbolic position is C05's subject; element preservation is C01's (route[rechunk])


def multspace_h(a, b, num):
    """multspace: values are exact multiples of the smaller endpoint and chained multiples of each other.
    The endpoints are forked by value (the kernel is floor(v / vint) * vint with both symbolic: nonlinear), so every
    (start, stop, num) within the bound is decided on real NumPy values -- solver-enumerated, stated as such."""
    _, cr = _mods()
    a, b = sx.conc(a), sx.conc(b)
    vals = cr.multspace(a, b, sx.conc(num))
    sx.require(len(vals) == sx.conc(num), "multspace-wrong-length", f"{vals}")
    # what the planner relies on: positive values not exceeding the larger endpoint, each a multiple of the previous
    # *interior* value in the direction of growth.  (The docstring's stronger claim "multiples of the smaller endpoint"
    # fails for start == stop, e.g. multspace(40, 40, 2) == [1, 39]; that is an efficiency glitch, not part of C14.)
    hi = a if a >= b else b
    seq = list(vals) if a <= b else list(reversed(vals))
    prev = None
    for v in seq:
        sx.require(v >= 1 and v <= hi, "multspace-value-out-of-range", f"{seq}")
        if prev is not None:
            sx.require(v % prev == 0, "multspace-value-not-a-multiple-of-the-previous", f"{seq}")
        prev = v


def termination_structural():
    """all loops of the planner are `for` over finite ranges / sequences; the only recursion is multspace's single swap"""
    alg, cr = _mods()
    import cubed.core.ops as ops

    fns = [alg.consolidate_chunks, alg.calculate_stage_chunks, alg._count_intermediate_chunks, alg.calculate_single_stage_io_ops,
           alg.multistage_rechunking_plan, cr.multspace, cr._multspace, cr.calculate_regular_stage_chunks, cr._fix_copy_chunks,
           cr.multistage_regular_rechunking_plan, ops._rechunk_plan, ops.rechunk, ops.split_chunks, ops.split_chunksizes]
    problems = []
    for f in fns:
        tree = ast.parse(textwrap.dedent(inspect.getsource(f)))
        for node in ast.walk(tree):
            if isinstance(node, ast.While):
                problems.append(f"{f.__name__}: while loop at line {node.lineno}")
            if isinstance(node, ast.Call) and isinstance(node.func, ast.Name) and node.func.id == f.__name__ and f is not cr.multspace:
                problems.append(f"{f.__name__}: recursion")
            if isinstance(node, ast.For):
                it = node.iter
                ok = isinstance(it, (ast.Call, ast.Name, ast.Attribute, ast.Subscript, ast.Tuple, ast.List))
                if isinstance(it, ast.Call) and isinstance(it.func, ast.Name) and it.func.id in ("count", "cycle", "repeat", "iter"):
                    ok = False
                if not ok:
                    problems.append(f"{f.__name__}: for over {ast.dump(it)[:60]}")
    # multspace recursion: exactly one self-call, guarded by `start > stop`, with the two endpoints swapped
    tree = ast.parse(textwrap.dedent(inspect.getsource(cr.multspace)))
    calls = []
    for node in ast.walk(tree):
        if isinstance(node, ast.If) and isinstance(node.test, ast.Compare) and ast.unparse(node.test) == "start > stop":
            for sub in ast.walk(node):
                if isinstance(sub, ast.Call) and isinstance(sub.func, ast.Name) and sub.func.id == "multspace":
                    calls.append(("guarded", [ast.unparse(a) for a in sub.args]))
    allcalls = [n for n in ast.walk(tree) if isinstance(n, ast.Call) and isinstance(n.func, ast.Name) and n.func.id == "multspace"]
    if len(allcalls) != 1 or len(calls) != 1 or calls[0][1][:2] != ["stop", "start"]:
        problems.append(f"multspace: recursion is not the single guarded argument swap: {calls}")
    max_stages = alg.MAX_STAGES
    return {
        "verdict": "holds" if not problems and isinstance(max_stages, int) and max_stages <= 1000 else "violated",
        "paths": len(fns), "queries": 0, "solver_s": 0.0, "reached": len(fns), "outcomes": {"ok": len(fns)},
        "counterexamples": [{"model": {}, "label": "violated:unbounded-loop", "detail": "; ".join(problems)}] if problems else [],
        "samples": [{"model": {}, "outcome": "ok", "notes": [f"{len(fns)} functions: no while loops, for-loops over finite iterables, MAX_STAGES={max_stages}"]}],
        "distinct_nontrivial": len(fns), "inconclusive": [], "harness_errors": [], "exhaustive": not problems,
        "extra": "structural (AST) side condition backing the per-path step budget of the symbolic obligations",
    }


def obligations(tier):
    alg, cr = _mods()
    import cubed.core.ops as ops

    fns = [alg.consolidate_chunks, alg._calculate_shared_chunks, alg.calculate_stage_chunks, alg._count_intermediate_chunks,
           alg.calculate_single_stage_io_ops, alg.multistage_rechunking_plan, cr.multspace, cr._multspace, cr.calculate_regular_stage_chunks,
           cr._fix_copy_chunks, cr.multistage_regular_rechunking_plan, cr.rechunk_plan, ops._rechunk_plan, ops.rechunk, ops._rechunk]
    wall = 600 if tier == "quick" else 3000
    big = 10**6
    common = dict(allowed=ALLOWED, setup=setup, functions=fns, wall_s=wall, stubs=["NpShim.geomspace (real np.geomspace on value-forked endpoints)", "SRat exact division"],
                  outside="operands >= 2**53 (float rounding of max_mem/chunk_mem); ExcessiveIOWarning heuristics; >3 dims")
    o = []
    # consolidate: unbounded-ish sizes (the arithmetic is mostly linear once the products are formed)
    for nd in (1, 2) if tier == "quick" else (1, 2, 3):
        vs = [(f"n{i}", 1, big) for i in range(nd)] + [(f"c{i}", 1, big) for i in range(nd)] + [("isz", 1, 16), ("mm", 0, 2**40)]
        o.append(Obl(f"consolidate[{nd}d]", (lambda nd: lambda **kw: consolidate_nd(nd, False, **kw))(nd), vs,
                     bounds=f"{nd} dims, sizes and chunks up to 10**6, itemsize 1..16, max_mem up to 2**40", witness_rule=lambda m: m["c0"] < m["n0"], **common))
    vs = [(f"n{i}", 1, 64) for i in range(2)] + [(f"c{i}", 1, 64) for i in range(2)] + [("isz", 1, 8), ("mm", 0, 2**16)] + [(f"lk{i}", 0, 2) for i in range(2)] + [(f"l{i}", 1, 80) for i in range(2)]
    o.append(Obl("consolidate[2d,chunk_limits]", lambda **kw: consolidate_nd(2, True, **kw), vs, bounds="2 dims, sizes <= 64, limits None/-1/explicit (>= chunks, possibly > shape)", **common))
    # single-stage planners (min_mem <= itemsize => one stage): larger sizes
    for regular in (0, 1):
        for nd in (1, 2):
            S = (200 if tier == "quick" else 1000) if nd == 1 else (3 if tier == "quick" else 5)
            vs = [(f"n{i}", 1, S) for i in range(nd)] + [(f"c{i}", 1, S) for i in range(nd)] + [(f"t{i}", 1, S) for i in range(nd)] + [("isz", 1, 8 if nd == 1 else 2), ("mn", 0, 1), ("mx", 0, 8 * S * S * 4)]
            o.append(Obl(f"plan[{'regular' if regular else 'irregular'},{nd}d,single-stage]", (lambda nd, regular: lambda **kw: plan_nd(nd, regular, **kw))(nd, regular), vs,
                         bounds=f"{nd} dims, sizes/chunks <= {S}, min_mem 0..1 (single stage), every max_mem; for 2 dims geometry and itemsize are forked by value (solver-enumerated) and the budgets stay symbolic", witness_rule=lambda m: m["c0"] != m["t0"], **common))
    # both axes GROW (write chunks larger than source chunks, not necessarily multiples): the consolidated read chunks run into the
    # write-chunk limits on two axes at once, where per-axis adjustments can add up beyond max_mem
    def growing(**kw):
        sx.assume(kw["t0"] > kw["c0"])
        sx.assume(kw["t1"] > kw["c1"])
        plan_nd(2, 0, **kw)

    G_ = 6 if tier == "quick" else 8
    vs = [("n0", G_, G_), ("n1", G_, G_), ("c0", 1, 2), ("c1", 1, 2), ("t0", 3, 5), ("t1", 3, 5), ("isz", 1, 1), ("mn", 0, 0), ("mx", 0, 40)]
    o.append(Obl("plan[irregular,2d,both-axes-growing]", growing, vs,
                 bounds=f"2 dims, extents {G_}x{G_}, source chunks 1..2, larger target chunks 3..5 (geometry forked by value), itemsize 1, every max_mem up to 40", witness_rule=lambda m: m["t0"] % m["c0"] != 0, **common))
    # multi-stage: small sizes, tight budgets
    Q = 4 if tier == "quick" else 6
    QL = 4 if tier == "quick" else 1  # quick: extents fixed to 4 (smallest size with reachable multi-stage plans)
    for regular in (0, 1):
        vs = [("n0", QL, Q), ("n1", QL, Q), ("c0", 1, Q), ("c1", 1, Q), ("t0", 1, Q), ("t1", 1, Q), ("isz", 1, 1 if tier == "quick" else 2), ("mn", 0, 2 * Q if tier != "quick" else 6), ("mx", 0, 2 * Q * 2 if tier != "quick" else 8)]
        o.append(Obl(f"plan[{'regular' if regular else 'irregular'},2d,multi-stage]", (lambda regular: lambda **kw: plan_nd(2, regular, _fork_shape=True, **kw))(regular), vs,
                     bounds=f"2 dims, sizes/chunks <= {Q}, itemsize 1..2, min_mem up to {2*Q}, max_mem up to {4*Q}: tight budgets force 2-4 stages", **common))
    # transposition-like 2-d rechunks (c0, 1) -> (1, t1): the geometry where multi-stage plans arise and where read chunks
    # are not multiples of intermediate stage chunks (multi-stage needs >= 2 dims: in 1-d the intermediate never grows)
    T = 6 if tier == "quick" else 10
    TL = T if tier == "quick" else 2  # quick: extents fixed to 6 (smallest size where a read chunk is not a multiple of the stage chunk)
    for regular in (0, 1):
        vs = [("n0", TL, T), ("n1", TL, T), ("c0", 1, T), ("c1", 1, 1), ("t0", 1, 1), ("t1", 1, T), ("isz", 1, 1), ("mn", 0, 6 if tier == "quick" else 12), ("mx", 0, 10 if tier == "quick" else 20)]
        o.append(Obl(f"plan[{'regular' if regular else 'irregular'},2d,transpose-like,multi-stage]", (lambda regular: lambda **kw: plan_nd(2, regular, **kw))(regular), vs,
                     bounds=f"shape <= {T}x{T}, source chunks (c0, 1), target chunks (1, t1), itemsize 1, tight min_mem/max_mem (geometry forked by value, budgets symbolic)", **common))

    def twin1(**kw):
        plan_nd(2, 1, _twin_multi=True, **kw)

    o.append(Obl("twin:plan[regular,2d,transpose-like,multi-stage]", twin1,
                 [("n0", TL, T), ("n1", TL, T), ("c0", 1, T), ("c1", 1, 1), ("t0", 1, 1), ("t1", 1, T), ("isz", 1, 1), ("mn", 0, 6), ("mx", 0, 10)],
                 allowed=ALLOWED, setup=setup, twin_of="plan[regular,2d,transpose-like,multi-stage]", wall_s=wall))
    o.append(Obl("multspace", multspace_h, [("a", 1, 40 if tier == "quick" else 150), ("b", 1, 40 if tier == "quick" else 150), ("num", 0, 3)],
                 bounds="endpoints <= 40 (150), 0..3 interior values; value-forked (solver-enumerated concrete values, real np.geomspace)", **common))
    N = 6 if tier == "quick" else 14
    o.append(Obl("rechunk_plan[1d]", rechunk_plan_1d, [("n", 1, N), ("c", 1, N), ("t", 1, N), ("M", 0, 8 * N * 5 + 40), ("irregular", 0, 1), ("mn", 0, 1)],
                 allowed=ALLOWED, setup=SG.setup, functions=fns, wall_s=wall, bounds=f"n, chunks <= {N}, every allowed_mem, min_mem default or 1, both planners",
                 outside="multi-stage through the public path needs geomspace on larger budgets: covered by plan[*,multi-stage]"))
    o.append(Obl("termination[structural]", termination_structural, kind="z3", functions=fns, wall_s=60, bounds="AST of the planner functions of the current tree"))

    def twin(**kw):
        plan_nd(2, 1, _twin_multi=True, **kw)

    vs = [("n0", QL, Q), ("n1", QL, Q), ("c0", 1, Q), ("c1", 1, Q), ("t0", 1, Q), ("t1", 1, Q), ("isz", 1, 1), ("mn", 0, 2 * Q if tier != "quick" else 6), ("mx", 0, 2 * Q * 2 if tier != "quick" else 8)]
    o.append(Obl("twin:plan[regular,2d,multi-stage]", twin, vs, allowed=ALLOWED, setup=setup, twin_of="plan[regular,2d,multi-stage]", wall_s=wall))
    return o
