"""C07 -- executors never let a task read data its producers have not finished writing (and C13b: callback events).

Real code: cubed.runtime.asyncio.async_map_dag (both compute_arrays_in_parallel modes), pipeline_to_stream,
async_map_unordered (all recompiled from current source with logging stripped and asyncio/time/aiostream replaced by
the sched stubs, driven by hand), cubed.runtime.pipeline.visit_nodes / visit_node_generations / skip_node,
cubed.runtime.utils.handle_callbacks / handle_operation_*_callbacks, cubed.core.plan.Plan._create_lazy_zarr_arrays
(the create-arrays barrier), SingleThreadedExecutor.execute_dag.
DAGs are *real finalized plans* (real construction + real finalization, optimize on/off) of a concrete catalogue; the
schedule is symbolic: which pending futures complete at each wake-up, in which order finished futures are seen, which
generation-mate stream is polled next, clock increments.
"""
from __future__ import annotations

import networkx as nx

from engine import loader, sx
from engine.obligation import Obl
from geom import backend as G
from harness import c01
from stubs import sched

EXPLANATION = (
    "bounded symbolic execution (sx/z3) of the real async_map_dag / async_map_unordered / DAG traversal on scheduler stubs: every "
    "completion subset per wake-up, every interleaving of generation-mates and every clock increment within the bound is a solver "
    "variable; over the resulting submit/complete/callback trace the barrier and event-order contracts are asserted on every path"
)
TRUSTED_BASE = ["stubs/sched.py (asyncio.wait / Future / time / aiostream contracts; validated by replays on a real event loop at check start)"]
ASSUMPTIONS = [
    "a task 'reads' its inputs between its submit and its complete event; a producer's chunk has its final value after the producer task's successful complete event",
    "real event loop, thread/process pools and aiostream are replaced by sched (merge = arbitrary interleaving of whole items)",
    "a cancelled-but-running backup rewriting an identical chunk after the barrier is idempotent (C06) and atomic per key (storage contract)",
]

_LOADED = None


def _load():
    global _LOADED
    if _LOADED is not None:
        return _LOADED
    import cubed.runtime.asyncio as cra
    import cubed.runtime.backup as crb
    import cubed.runtime.pipeline as crp
    import cubed.runtime.utils as cru

    loader.record(crp.visit_nodes, crp.visit_node_generations, crp.skip_node, cru.handle_callbacks, cru.handle_operation_start_callbacks,
                  cru.handle_operation_end_callbacks, cru.batched)
    slb = loader.reload(crb.should_launch_backup)
    amu = loader.reload(cra.async_map_unordered, {"asyncio": sched.ShimAsyncio, "time": sched.ShimTime,
                                                   "should_launch_backup": lambda t, now, s, e: slb(t, now, s, e, min_tasks=1)})
    p2s = loader.reload(cra.pipeline_to_stream, {"stream": sched.ShimStream, "async_map_unordered": amu})
    amd = loader.reload(cra.async_map_dag, {"stream": sched.ShimStream, "pipeline_to_stream": p2s})
    _LOADED = amd
    return amd


# ---------------------------------------------------------------------------------------------
# catalogue of real finalized plans (concrete small geometry)
# ---------------------------------------------------------------------------------------------
_DAGS = {}


def build_dag(name, optimize):
    key = (name, optimize)
    if key in _DAGS:
        return _DAGS[key]
    G.install()
    G.reset_names()
    import cubed.array_api as xp
    from cubed.core.plan import arrays_to_plan

    x = G.stub_array("x", (4,), (2,))
    z = G.stub_array("z", (6,), (2,))
    if name == "chain-unequal":  # 2 tasks -> 1 task (reduction) -> 1 task
        outs = [xp.negative(xp.sum(xp.negative(x), split_every=2))]
    elif name == "diamond":
        a = xp.negative(x)
        outs = [xp.add(xp.abs(a), xp.exp(a))]
    elif name == "independent":
        outs = [xp.negative(x), xp.negative(z)]
    elif name == "multi-output":
        m = G.stub_array("m", (2, 4), (1, 2))
        u0, u1 = xp.unstack(xp.negative(m), axis=0)
        outs = [xp.add(u0, u1)]
    elif name == "rechunk-then-add":
        y = G.stub_array("y", (4,), (1,))
        outs = [xp.add(x, y)]
    else:
        raise KeyError(name)
    fp = arrays_to_plan(*outs)._finalize(optimize_graph=bool(optimize))
    dag = fp.dag
    info = {}
    for n, d in dag.nodes(data=True):
        if "primitive_op" in d:
            info[n] = {"num_tasks": d["primitive_op"].num_tasks, "tasks": [tuple(t) if isinstance(t, (list, tuple)) else id(t) for t in d["pipeline"].mappable]}
    # op -> ops producing its inputs (through array nodes)
    producers = {}
    for n in info:
        ps = set()
        for arr in dag.predecessors(n):
            for p in dag.predecessors(arr):
                if p in info:
                    ps.add(p)
        producers[n] = ps
    _DAGS[key] = (dag, info, producers)
    return _DAGS[key]


class Rec:
    """recording callback (duck-typed cubed.runtime.types.Callback)"""

    def __init__(self, trace):
        self.trace = trace

    def on_compute_start(self, e):
        self.trace.append(("compute_start",))

    def on_compute_end(self, e):
        self.trace.append(("compute_end",))

    def on_operation_start(self, e):
        self.trace.append(("op_start", e.name))

    def on_operation_end(self, e):
        self.trace.append(("op_end", e.name))

    def on_task_end(self, e):
        self.trace.append(("task_end", e.name))


def mark_resumed(dag, info, flags):
    """what Plan.execute(resume=True) does to the DAG before handing it to the executor: EVERY node gets a `computed` flag -- nodes
    without a pipeline (arrays) are 'computed', operations according to already_computed (here: the symbolic flags, forked by value);
    create-arrays is never skipped.  Returns (dag copy, skipped ops)"""
    dag = dag.copy()
    skipped = set()
    ops = sorted(o for o in info if o != "create-arrays")
    for k, op in enumerate(ops):
        if k < len(flags) and sx.conc(flags[k]) == 1:
            skipped.add(op)
    for name, d in dag.nodes(data=True):
        if d.get("pipeline", None) is None:
            d["computed"] = True
        else:
            d["computed"] = name in skipped
    return dag, skipped


def run_dag(dagname, optimize, parallel, batch_size, use_backups, outcomes, dts, perms, max_running=None, max_fail=0, resume_flags=None):
    amd = _load()
    dag, info, producers = build_dag(dagname, optimize)
    if resume_flags is not None:
        dag, skipped = mark_resumed(dag, info, resume_flags)
        info = {o: d for o, d in info.items() if o not in skipped}
        producers = {o: {p for p in ps if p not in skipped} for o, ps in producers.items() if o not in skipped}
    w = sched.WORLD = sched.World(outcomes, dts, perms, max_running)
    w.max_fail = max_fail
    trace = w.events
    # the op a submission belongs to is identified by the pipeline config it is submitted with (batch refills do not
    # pass name=...); create-arrays has config None
    by_config = {id(d["pipeline"].config): n for n, d in dag.nodes(data=True) if "primitive_op" in d}

    def opname(name, config):
        return name if name is not None else by_config[id(config)]

    def key(i):
        return tuple(i) if isinstance(i, (list, tuple)) else id(i)

    def create(inputs, name=None, func=None, config=None, **kw):
        out = []
        for i in inputs:
            f = w.new_future(key(i), False, opname(name, config))
            out.append((i, f))
        # the barrier is checked at the moment of submission too, so that a violation is reported even when the rest of the
        # schedule does not fit into the observation budget
        check_barrier([e for e in trace], info, producers, final=False)
        return out

    kwargs = {}
    if batch_size is not None:
        kwargs["batch_size"] = batch_size
    if use_backups:
        kwargs["use_backups"] = True
        # backups need the op name: async_map_unordered calls create_backup_futures_func(inputs, **kwargs) where kwargs
        # carries func/config only, so the op is recovered from the original future
        kwargs["create_backup_futures_func"] = None
    cb = Rec(trace)
    if use_backups:
        # route backups through a closure that finds the op of the input's original submission
        def create_backup2(inputs, **kw):
            out = []
            for i in inputs:
                op = next(f.op for f in w.subs if f.inp == key(i) and not f.is_backup and not f._done)
                out.append((i, w.new_future(key(i), True, op)))
            return out

        kwargs["create_backup_futures_func"] = create_backup2
    co = amd(create, dag, callbacks=[cb], compute_arrays_in_parallel=parallel, **kwargs)
    try:
        sched.run_coro(co)
    except sched.TaskError:
        # the computation surfaced a task's error and stopped (legitimate, C08's subject): nothing ran afterwards
        return None, info, producers
    return trace, info, producers


def check_barrier(trace, info, producers, final=True):
    """C07: every submit of an op happens after a successful completion of every task of every producer op and of
    every create-arrays task; an op's stream ends only when every one of its tasks has a successful completion"""
    done_ok = {}  # op -> set of inputs completed successfully so far
    for ev in trace:
        if ev[0] == "complete" and ev[4] == "ok":
            done_ok.setdefault(ev[1], set()).add(ev[2])
        elif ev[0] == "submit":
            op = ev[1]
            need = set(producers.get(op, ()))
            if op != "create-arrays" and "create-arrays" in info:
                need.add("create-arrays")
            for p in need:
                missing = [t for t in info[p]["tasks"] if t not in done_ok.get(p, set())]
                if missing:
                    raise sx.Violated("task-submitted-before-producer-finished", f"{op} input {ev[2]} submitted while {p} still has unfinished tasks {missing}")
    if not final:
        return
    for op, d in info.items():
        missing = [t for t in d["tasks"] if t not in done_ok.get(op, set())]
        if missing:
            raise sx.Violated("operation-ended-with-unfinished-tasks", f"{op}: {missing}")


def check_events(trace, info):
    """C13b: per operation one start, num_tasks task-ends, one end, in that order"""
    for op, d in info.items():
        evs = [(k, e) for k, e in enumerate(trace) if e[0] in ("op_start", "op_end", "task_end") and e[1] == op]
        kinds = [e[0] for _, e in evs]
        sx.require(kinds.count("op_start") == 1, "operation-start-count", f"{op}: {kinds}")
        sx.require(kinds.count("op_end") == 1, "operation-end-count", f"{op}: {kinds}")
        sx.require(kinds.count("task_end") == d["num_tasks"], "task-end-count-differs-from-num_tasks", f"{op}: {kinds.count('task_end')} vs {d['num_tasks']}")
        sx.require(kinds[0] == "op_start" and kinds[-1] == "op_end", "operation-events-out-of-order", f"{op}: {kinds}")
    # every task_end names an operation of the plan
    for e in trace:
        if e[0] == "task_end":
            sx.require(e[1] in info, "task-end-for-unknown-operation", str(e))


def make(dagname, optimize, parallel, batch_size, use_backups, n_o, n_d, n_p, twin=False, max_running=3, n_resume=0):
    def h(**kw):
        outcomes = [kw[f"o{k}"] for k in range(n_o)]
        dts = [kw[f"d{k}"] for k in range(n_d)]
        perms = [kw[f"p{k}"] for k in range(n_p)]
        flags = [kw[f"s{k}"] for k in range(n_resume)] if n_resume else None
        trace, info, producers = run_dag(dagname, optimize, parallel, batch_size, use_backups, outcomes, dts, perms, max_running, max_fail=(1 if use_backups else 0),
                                         resume_flags=flags)
        if trace is None:
            return
        sx.note(trace)
        check_barrier(trace, info, producers)
        check_events(trace, info)
        if twin:
            raise sx.Violated("reached-end-of-dag")

    return h


def single_threaded(dagname, optimize, **kw):
    """SingleThreadedExecutor.execute_dag on the real plan with recording stage functions and symbolic `computed` flags"""
    import dataclasses

    from cubed.runtime.executors.local import SingleThreadedExecutor

    dag, info, producers = build_dag(dagname, optimize)
    dag = dag.copy()
    trace = []
    ops = sorted(info)
    skipped = set()
    for k, op in enumerate(ops):
        flag = kw[f"s{k}"]
        if op != "create-arrays" and sx.conc(flag) == 1:
            dag.nodes[op]["computed"] = True
            skipped.add(op)

        def mkfn(op):
            def fn(inp, config=None):
                trace.append(("submit", op, tuple(inp) if isinstance(inp, (list, tuple)) else id(inp), 0, False))
                trace.append(("complete", op, tuple(inp) if isinstance(inp, (list, tuple)) else id(inp), 0, "ok"))
            return fn

        dag.nodes[op]["pipeline"] = dataclasses.replace(dag.nodes[op]["pipeline"], function=mkfn(op))
    SingleThreadedExecutor().execute_dag(dag, callbacks=[Rec(trace)])
    ran = {e[1] for e in trace if e[0] == "submit"}
    sx.require(ran == set(ops) - skipped, "wrong-set-of-operations-executed", f"ran {ran} skipped {skipped}")
    info2 = {o: d for o, d in info.items() if o not in skipped}
    prod2 = {o: {p for p in ps if p not in skipped} for o, ps in producers.items() if o not in skipped}
    check_barrier(trace, info2, prod2)
    check_events(trace, info2)


def vars_(n_o, n_d, n_p, fail=False):
    return [(f"o{k}", 0, 2 if fail else 1) for k in range(n_o)] + [(f"d{k}", 0, 6) for k in range(n_d)] + [(f"p{k}", 0, 3) for k in range(n_p)]


def setup():
    G.install()
    sched.validate(30)


def obligations(tier):
    import cubed.core.plan as cp
    import cubed.runtime.asyncio as cra
    import cubed.runtime.executors.local as crl
    import cubed.runtime.pipeline as crp

    fns = [cra.async_map_dag, cra.pipeline_to_stream, cra.async_map_unordered, crp.visit_nodes, crp.visit_node_generations, crp.skip_node,
           cp.Plan._create_lazy_zarr_arrays, cp.Plan._finalize, crl.SingleThreadedExecutor.execute_dag]
    wall = 600 if tier == "quick" else 3000
    o = []
    if tier == "quick":
        combos = [
            # dag, optimize, parallel, batch, backups, n_o, n_d, n_p
            # dag, optimize, parallel, batch, backups, n_o, n_d, n_p, max 'still running' observations
            ("chain-unequal", 0, False, None, False, 30, 40, 8, 3),
            ("chain-unequal", 0, True, None, False, 30, 40, 10, 3),
            ("diamond", 0, False, None, False, 30, 40, 8, 1),
            ("diamond", 0, True, None, False, 30, 40, 12, 0),
            ("diamond", 1, True, None, False, 30, 40, 10, 3),
            ("independent", 0, True, None, False, 30, 40, 12, 2),
            ("independent", 0, True, 1, False, 30, 50, 12, 3),
            ("multi-output", 0, True, None, False, 30, 40, 12, 1),
            ("multi-output", 1, False, 2, False, 30, 50, 8, 3),
            ("rechunk-then-add", 0, True, None, False, 30, 40, 12, 3),
            ("chain-unequal", 0, True, None, True, 30, 70, 12, 1),
            ("chain-unequal", 0, False, 1, True, 30, 70, 10, 1),
        ]
    else:
        combos = []
        for dn in ("chain-unequal", "diamond", "independent", "multi-output", "rechunk-then-add"):
            for opt in (0, 1):
                for par in (False, True):
                    for bs in (None, 1, 2):
                        combos.append((dn, opt, par, bs, False, 40, 60, 14, 3))
            combos.append((dn, 0, True, None, True, 40, 90, 14, 2))
            combos.append((dn, 0, False, 2, True, 40, 90, 12, 2))
    for dn, opt, par, bs, ub, n_o, n_d, n_p, mr in combos:
        name = f"barrier[{dn},optimize={opt},parallel={int(par)},batch={bs},backups={int(ub)}]"
        o.append(Obl(name, make(dn, opt, par, bs, ub, n_o, n_d, n_p, max_running=mr), vars_(n_o, n_d, n_p, fail=ub), setup=setup, functions=fns, wall_s=wall,
                     bounds=f"real finalized plan '{dn}' (optimize_graph={bool(opt)}); compute_arrays_in_parallel={par}, batch_size={bs}, use_backups={ub}; "
                            f"<= {n_o} future observations (every wake-up x pending future: running or succeeded) of which at most {mr} 'still running', <= {n_d} clock readings, <= {n_p} order/interleaving choices",
                     outside="more than one task failure (only with backups on; C08 decides the map itself), longer schedules (counted as unreachable, not as success), real event loop / pools / aiostream",
                     stubs=["sched.ShimAsyncio", "sched.ShimTime", "sched.ShimStream"],
                     witness_rule=lambda m: any(v == 0 for k, v in m.items() if k.startswith("o"))))
    # resumed runs: Plan.execute(resume=True) flags every node; the executor must still order what is left to run
    rcombos = [("chain-unequal", 0, True, None, 30, 40, 10, 2), ("chain-unequal", 0, False, None, 30, 40, 8, 2), ("diamond", 0, True, None, 30, 40, 12, 0),
               ("multi-output", 0, True, None, 30, 40, 12, 0)]
    if tier != "quick":
        rcombos = [(dn, opt, par, bs, 40, 60, 14, 2) for dn in ("chain-unequal", "diamond", "independent", "multi-output", "rechunk-then-add") for opt in (0, 1)
                   for par in (False, True) for bs in (None, 2)]
    for dn, opt, par, bs, n_o, n_d, n_p, mr in rcombos:
        o.append(Obl(f"barrier-resume[{dn},optimize={opt},parallel={int(par)},batch={bs}]", make(dn, opt, par, bs, False, n_o, n_d, n_p, max_running=mr, n_resume=6),
                     vars_(n_o, n_d, n_p) + [(f"s{k}", 0, 1) for k in range(6)], setup=setup, functions=fns + [cp.FinalizedPlan.execute, cp.already_computed], wall_s=max(wall, 900),
                     bounds=f"as barrier[...] on plan '{dn}', with every subset of its operations flagged as already computed the way Plan.execute(resume=True) flags them "
                            "(array nodes flagged too); the barrier is required among the operations left to run",
                     outside="which subsets a real interrupted run can leave behind (all subsets are taken)", stubs=["sched.ShimAsyncio", "sched.ShimTime", "sched.ShimStream"],
                     witness_rule=lambda m: any(v == 1 for k, v in m.items() if k.startswith("s")) and any(v == 0 for k, v in m.items() if k.startswith("s"))))
    o.append(Obl("twin:barrier[diamond,parallel]", make("diamond", 0, True, None, False, 30, 40, 12, twin=True, max_running=0), vars_(30, 40, 12), setup=setup,
                 twin_of="barrier[diamond,optimize=0,parallel=1,batch=None,backups=0]", wall_s=wall))
    for dn in ("diamond", "multi-output", "chain-unequal"):
        for opt in (0, 1):
            dag, info, _ = (None, None, None)
            o.append(Obl(f"single-threaded[{dn},optimize={opt}]", (lambda dn, opt: lambda **kw: single_threaded(dn, opt, **kw))(dn, opt),
                         [(f"s{k}", 0, 1) for k in range(8)], setup=setup, functions=fns, wall_s=wall,
                         bounds=f"real finalized plan '{dn}', every subset of operations marked computed (resume)", witness_rule=lambda m: any(m.values())))
    # which operations a resumed run may leave out is itself part of the barrier: an operation left out must have written every chunk
    # of every output, else its consumers read fill values (decided by the real already_computed on symbolic store states: C09's harness)
    from harness import c09

    V9 = []
    for k in range(6):
        V9 += [(f"present{k}", 0, 1), (f"attr{k}", 0, 1), (f"zerod{k}", 0, 1), (f"init{k}", 0, 4)]
    for t in (("multi-output",) if tier == "quick" else ("multi-output", "diamond", "reduce-chain")):
        o.append(Obl(f"resume-read-barrier[{t}]", (lambda t: lambda **kw: c09.resume_h(t, 0, 1, **kw))(t), V9, functions=fns + [cp.FinalizedPlan.execute, cp.already_computed], wall_s=wall,
                     bounds="real finalized plan; per produced array: present/absent, completeness attribute, 0-d or not, nchunks_initialized 0..nchunks (every crash point between two "
                            "chunk writes, over-approximated): an executed operation never reads an incomplete array whose producer was skipped",
                     outside="values; what Zarr reports for a half-written key", stubs=["StoreState", "visiting executor"],
                     witness_rule=lambda m: any(m[f"init{k}"] > 0 for k in range(6))))
    from harness import execwire  # the real thread/process executor entry points on the same plans

    o.extend(execwire.obligations(tier, fns, wall))
    return o
