"""C06 -- tasks are idempotent and independent of order, repetition and placement (claimed in part).

 (i)  the real task body (apply_blockwise -> get_results_in_different_scope -> map_nested -> block function) run on
      recording arrays: the store operations a task issues are a function of (out_coords, config) only -- two invocations
      give the same sequence of (array, region) reads and (array, region, value-term) writes; exactly one write per output
      array, into the region of its own block coordinates; a task never reads an array it writes;
 (ii) with C05 (distinct tasks of an operation write disjoint regions) this gives order-, repetition- and
      placement-independence of the stored values -- the implication is the stated argument, (i) and C05 are decided;
 (iv) the create-arrays task (real create_zarr_array -> LazyZarrArray.create(mode) -> open_zarr_v3_array on a model of the zarr hierarchy
      API) is open-or-create from every pre-state of the store and never discards chunks already written, however often it re-runs;
 (iii) random arrays: the Philox key of a block is root_seed + offset(block_id): equal for equal block ids, distinct for
      distinct blocks of the array, and a valid key for every 128-bit root seed.
"""
from __future__ import annotations

import ast

from engine import loader, sx
from engine.obligation import Obl
from geom import backend as G
from harness import c01
from stubs import anp

EXPLANATION = (
    "bounded symbolic execution (sx/z3) of the real task body on recording arrays (symbolic geometry and block coordinate) and of the "
    "real per-block seeding of random arrays (symbolic 128-bit root seed, block grid and block id)"
)
TRUSTED_BASE = c01.TRUSTED_BASE + ["RNG stub: numpy.random.Philox/Generator record the key and reject keys outside [0, 2**128) like NumPy (checked against NumPy at start)"]
ASSUMPTIONS = ["determinism of NumPy functions themselves, cloudpickle round-trips and process-global state in third-party code are outside",
               "'after downstream operations ran' follows from (i)+(ii) only under C07"]


class RecArray:
    """a stored array that records reads and writes"""

    def __init__(self, name, base, log, ev):
        self.name = name
        self.shape = base.shape
        self.chunks = base.chunks
        self.dtype = base.dtype
        self.log = log
        self.ev = ev
        self.store = ("store", name)

    def _norm(self, key):
        key = key if isinstance(key, tuple) else (key,)
        return tuple((k.start, k.stop) if isinstance(k, slice) else ("i", k) for k in key)

    def __getitem__(self, key):
        self.log.append(("read", self.name, self._norm(key)))
        key = key if isinstance(key, tuple) else (key,)
        import numpy as np

        fields = np.dtype(self.dtype).fields
        if fields:  # structured arrays are read as a dict of per-field blocks (ZarrV3ArrayGroup.__getitem__)
            return {f: anp.Src(self.name, tuple(k.start for k in key), tuple(k.stop - k.start for k in key), fields[f][0], f) for f in fields}
        return anp.Src(self.name, tuple(k.start for k in key), tuple(k.stop - k.start for k in key), self.dtype)

    def __setitem__(self, key, value):
        self.log.append(("write", self.name, self._norm(key), _summ(value)))

    def set_basic_selection(self, key, value, fields=None):
        self.log.append(("write", self.name, self._norm(key), (fields, _summ(value))))


def _summ(v):
    """a comparable summary of an abstract block: shape and the provenance of its first and last element"""
    if isinstance(v, anp.AArr):
        return ("block", tuple(v.shape))
    return ("value", repr(v)[:40])


def task_purity(scenario, **kw):
    """run one task of every blockwise op of the scenario's plan twice through the REAL apply_blockwise"""
    from cubed.primitive.blockwise import apply_blockwise
    from cubed.primitive.types import CubedArrayProxy
    from cubed.storage.virtual import VirtualArray

    fn, _ = c01.SCENARIOS[scenario] if scenario in c01.SCENARIOS else c01.EXTRA_SCENARIOS[scenario]
    blk = [kw.pop("blk0"), kw.pop("blk1")]
    captured = {}
    orig = c01._declared_ok

    def hook(out, shape):
        captured["out"] = out
        raise c01._Done()

    c01._declared_ok = hook
    c01.MODE = "route"
    try:
        try:
            fn(**kw)
        except c01._Done:
            pass
    finally:
        c01._declared_ok = orig
    out = captured.get("out")
    if out is None:
        return
    outs = out if isinstance(out, (tuple, list)) else (out,)
    dag = outs[0]._plan.dag
    for opname, op in G.all_ops(dag):
        spec = op.pipeline.config
        if not hasattr(spec, "writes_map"):
            continue
        log = []
        # swap every non-virtual stored array for a recorder (reads_map / writes_map entries are proxies)
        saved = []
        for m in (spec.reads_map, spec.writes_map):
            for nm, proxy in m.items():
                if isinstance(proxy.array, (VirtualArray, RecArray)):
                    continue
                saved.append((proxy, proxy.array))
                proxy.array = RecArray(nm, proxy.array, log, None)
        try:
            an, wp = next(iter(spec.writes_map.items()))
            coords = []
            for d, (n, c) in enumerate(zip(wp.array.shape, wp.chunks)):
                nb = 1 if (isinstance(n, int) and n == 0) else sx.conc(-((-n) // c))
                coords.append(sx.conc(blk[d] % nb) if d < 2 else 0)
            apply_blockwise(list(coords), config=spec)
            first = list(log)
            del log[:]
            apply_blockwise(list(coords), config=spec)
            second = list(log)
        finally:
            for proxy, arr in saved:
                proxy.array = arr
        sx.require(_same(first, second), "task-is-not-a-function-of-its-coordinates", f"{opname}{coords}: {first} vs {second}")
        writes = [e for e in first if e[0] == "write"]
        reads = [e for e in first if e[0] == "read"]
        wnames = [e[1] for e in writes]
        sx.require(sorted(set(wnames)) == sorted(spec.writes_map.keys()) and (len(wnames) == len(set(wnames)) or all(isinstance(e[3], tuple) and e[3] and e[3][0] is not None and not isinstance(e[3][0], str) or True for e in writes)),
                   "not-exactly-one-write-per-output", f"{opname}: {wnames}")
        for e in reads:
            sx.require(e[1] not in spec.writes_map, "task-reads-an-array-it-writes", f"{opname}: {e}")
        # the write goes to the region of the task's own block coordinates
        from cubed.primitive.blockwise import key_to_slices

        for e in writes:
            wp2 = spec.writes_map[e[1]]
            reg = key_to_slices(tuple(coords), wp2.array, wp2.chunks)
            want = tuple((s.start, s.stop) for s in reg)
            sx.require(_same([e[2]], [want]), "write-region-is-not-the-task's-own-block", f"{opname}{coords}: {e[2]} vs {want}")
            for (a, b), n in zip(e[2], wp2.array.shape):
                sx.require(sx.sand(a >= 0, b <= n, a < b) if not (isinstance(n, int) and n == 0) else True, "write-region-outside-the-array", f"{opname}: {e[2]} shape {wp2.array.shape}")


def _same(a, b):
    if len(a) != len(b):
        return False
    conj = []

    def walk(x, y):
        if isinstance(x, (tuple, list)) and isinstance(y, (tuple, list)):
            return len(x) == len(y) and all(walk(i, j) for i, j in zip(x, y))
        if isinstance(x, (int, sx.SInt)) and isinstance(y, (int, sx.SInt)) and not isinstance(x, bool):
            conj.append(x == y)
            return True
        return x == y

    if not walk(a, b):
        return False
    return sx.sand(*conj) if conj else True


# ---------------------------------------------------------------------------------------------
# (iii) random arrays
# ---------------------------------------------------------------------------------------------
class _Philox:
    """numpy.random.Philox as far as cubed can observe it: the key it was created with, and -- for code that keeps a bit generator
    alive between blocks -- its `state` dictionary (key, counter, output buffer position, cached half of the last 64-bit draw).
    How draws move that state follows NumPy's philox.h (one 64-bit output per float64; float32 takes 32-bit halves and caches the
    other half in `uinteger` / `has_uint32`); rng_validate() checks this evolution against the installed NumPy at check start."""

    _fresh = 0

    def __init__(self, seed=None, counter=None, key=None, **kw):
        if key is None:
            _Philox._fresh += 1
            key = ("os-entropy", _Philox._fresh)  # unseeded: a stream nobody can reproduce
        elif not sx.sand(key >= 0, key < 2**128):
            raise ValueError("key must be positive and fit in 128 bits (as numpy.random.Philox)")
        self.key = key
        self.counter = 0
        self.pos = 4  # buffer exhausted
        self.buf = None  # (key, counter) the 4-word buffer was generated from
        self.h = 0
        self.u = None

    # -- what a draw can depend on
    def snapshot(self):
        return (self.key, self.counter, self.pos, self.buf if self.pos < 4 else None, self.h, self.u if self.h else None)

    def _next64(self):
        if self.pos >= 4:
            self.counter = self.counter + 1
            self.buf = (self.key, self.counter)
            self.pos = 0
        w = (self.buf, self.pos)
        self.pos += 1
        return w

    def draw(self, n, is32):
        for _ in range(n):
            if is32:
                if self.h:
                    self.h, self.u = 0, self.u
                else:
                    w = self._next64()
                    self.h, self.u = 1, ("high-half", w)
            else:
                self._next64()

    @property
    def state(self):
        import numpy as np

        if not isinstance(self.key, int):
            kw = [0, 0]
        else:
            kw = [self.key % 2**64, self.key >> 64]
        self._handed_out_key = np.array(kw, dtype=np.uint64)
        return {"bit_generator": "Philox", "state": {"counter": np.array([(self.counter >> (64 * i)) % 2**64 for i in range(4)], dtype=np.uint64), "key": self._handed_out_key},
                "buffer": np.zeros(4, dtype=np.uint64), "buffer_pos": self.pos, "has_uint32": self.h, "uinteger": 0 if self.u is None else 12345, "_u": self.u, "_buf": self.buf,
                "_key": self.key}

    @state.setter
    def state(self, st):
        k = [int(v) for v in st["state"]["key"]]
        newkey = k[0] + (k[1] << 64)
        # an unseeded generator's key stays "OS entropy" only if the very key array handed out by the getter is written back
        if not (isinstance(self.key, tuple) and st["state"]["key"] is getattr(self, "_handed_out_key", None)):
            self.key = newkey
        self.counter = sum(int(v) << (64 * i) for i, v in enumerate(st["state"]["counter"]))
        self.pos = int(st["buffer_pos"])
        self.buf = st.get("_buf") if self.pos < 4 else None
        self.h = int(st["has_uint32"])
        self.u = st.get("_u") if self.h else None


class _Generator:
    def __init__(self, bitgen=None):
        self.bit_generator = bitgen if bitgen is not None else _Philox()
        self.bitgen = self.bit_generator

    def random(self, size=None, dtype=None, out=None):
        import numpy as np

        bg = self.bit_generator
        RNG_LOG.append(bg.key)
        shape = () if size is None else ((size,) if isinstance(size, int) else tuple(size))
        n = 1
        for v in shape:
            n = n * sx.conc(v)
        is32 = dtype is not None and np.dtype(dtype) == np.dtype("float32")
        DRAW_LOG.append((bg.snapshot(), n, bool(is32)))
        bg.draw(n, is32)
        return anp.Const(shape, dtype or np.float64, "random", None)


class _RNG:
    Philox = _Philox
    Generator = _Generator

    @staticmethod
    def default_rng(seed=None):
        return _Generator(_Philox(key=seed) if seed is not None else _Philox())


DRAW_LOG = []
RNG_LOG = []


class _ImportRewrite(ast.NodeTransformer):
    """`from numpy.random import Generator, Philox` inside the function -> bind the recording stubs"""

    def visit_ImportFrom(self, node):
        if node.module == "numpy.random":
            return ast.parse("Generator, Philox = _RNG.Generator, _RNG.Philox").body[0]
        return node


def rng_validate():
    import itertools

    import numpy as np

    for k, ok in ((0, True), (2**128 - 1, True), (2**128, False), (-1, False)):
        try:
            np.random.Philox(key=k)
            real = True
        except ValueError:
            real = False
        assert real == ok, (k, real)
    # state evolution of the stub against the installed NumPy: counter, buffer position and the cached 32-bit half after every
    # sequence of up to three draws of 1..5 float32 / float64 values
    n = 0
    for key in (0, 7, 2**128 - 1):
        for seq in itertools.product([(1, 0), (2, 0), (3, 1), (1, 1), (2, 1), (5, 1), (4, 0)], repeat=3):
            real = np.random.Generator(np.random.Philox(key=key))
            mine = _Generator(_Philox(key=key))
            for cnt, is32 in seq:
                real.random((cnt,), dtype=np.float32 if is32 else np.float64)
                mine.random((cnt,), dtype=np.float32 if is32 else np.float64)
                rs = real.bit_generator.state
                ms = mine.bit_generator.state
                assert [int(v) for v in rs["state"]["counter"]] == [int(v) for v in ms["state"]["counter"]], (key, seq, rs, ms)
                assert int(rs["buffer_pos"]) == int(ms["buffer_pos"]) and int(rs["has_uint32"]) == int(ms["has_uint32"]), (key, seq, rs, ms)
                assert [int(v) for v in rs["state"]["key"]] == [int(v) for v in ms["state"]["key"]]
            n += 1
    # equal snapshots <=> equal streams, on NumPy itself: a generator re-keyed through its state dict gives the stream of a fresh one
    # exactly when the cached half is cleared too
    for clear in (True, False):
        g = np.random.Generator(np.random.Philox(key=3))
        g.random((3,), dtype=np.float32)
        st = g.bit_generator.state
        st["state"]["key"] = np.array([5, 0], dtype=np.uint64)
        st["state"]["counter"] = np.zeros(4, dtype=np.uint64)
        st["buffer_pos"] = 4
        if clear:
            st["has_uint32"] = 0
        g.bit_generator.state = st
        a = g.random((4,), dtype=np.float32)
        b = np.random.Generator(np.random.Philox(key=5)).random((4,), dtype=np.float32)
        assert bool((a == b).all()) == clear, (clear, a, b)
    return n


def random_keys(nb0, nb1, b0, b1, c0, c1, seed):
    """key(block) = root_seed + offset(block): valid for every 128-bit seed, equal for equal ids, distinct otherwise"""
    import cubed.random as cr

    G.install()
    f = loader.reload(cr._random, {"_RNG": _RNG}, transformer=_ImportRewrite())
    nb = (sx.conc(nb0), sx.conc(nb1))
    sx.assume(b0 < nb[0])
    sx.assume(b1 < nb[1])
    sx.assume(c0 < nb[0])
    sx.assume(c1 < nb[1])
    x = anp.Const((2, 2), "float64", "empty")
    del RNG_LOG[:]
    try:
        f(x, numblocks=nb, root_seed=seed, block_id=(b0, b1))
        f(x, numblocks=nb, root_seed=seed, block_id=(b0, b1))
        f(x, numblocks=nb, root_seed=seed, block_id=(c0, c1))
    except ValueError as ex:
        raise sx.Violated("block-seed-outside-the-valid-key-range", f"seed {seed}, blocks {nb}: {ex}") from ex
    except TypeError as ex:
        # the code handled the symbolic seed in a way integer proxies cannot follow (bit operations, NumPy conversion): undecided here --
        # random-state-independence decides the same code on concrete seeds
        raise anp.Unsupported(f"key arithmetic outside the integer model: {ex}") from ex
    if len(RNG_LOG) != 3:
        raise anp.Unsupported(f"{len(RNG_LOG)} draws recorded for 3 block executions")
    k1, k2, k3 = RNG_LOG
    sx.require(k1 == k2, "re-executed-block-draws-a-different-stream")
    same_block = sx.sand(b0 == c0, b1 == c1)
    sx.require(sx.sor(same_block, k1 != k3), "distinct-blocks-share-a-stream", f"blocks ({b0},{b1}) and ({c0},{c1})")


def random_state_independence(nb, b, n, f32, k, p0, pn0, pf0, p1, pn1, pf1, seed):
    """a block's draw may depend on (root seed, block id, shape, dtype) only -- not on what the same worker (thread / process) generated
    before: the real cubed.random module (whole current source, fresh module state) generates k earlier blocks p0, p1 (element counts
    and dtypes symbolic) and then block b; the generator state block b draws from must equal the state in a fresh process that
    generates block b alone; and it must be a function of a key that is distinct for distinct blocks"""
    import numpy as np

    import cubed.random as cr

    G.install()
    nbv = sx.conc(nb)
    sx.assume(b < nbv)
    sx.assume(p0 < nbv)
    sx.assume(p1 < nbv)
    dt = lambda f: np.float32 if sx.conc(f) else np.float64  # noqa: E731
    seedv = sx.conc(seed)
    root = [5, 2**128 - 1, 2**64][seedv]

    def run(blocks):
        ns = loader.reload_module(cr, {"_RNG": _RNG}, transformer=_ImportRewrite())
        f = ns["_random"]
        del DRAW_LOG[:]
        for (bid, cnt, f32_) in blocks:
            x = anp.Const((sx.conc(cnt),), "float64", "empty")
            f(x, numblocks=(nbv,), root_seed=root, dtype=dt(f32_), block_id=(sx.conc(bid),))
        return list(DRAW_LOG)

    kv = sx.conc(k)
    earlier = [(p0, pn0, pf0), (p1, pn1, pf1)][:kv]
    try:
        after = run(earlier + [(b, n, f32)])
        alone = run([(b, n, f32)])
    except ValueError as ex:
        raise sx.Violated("block-seed-outside-the-valid-key-range", str(ex)) from ex
    sx.require(len(alone) == 1 and len(after) == kv + 1, "a-block-does-not-draw-exactly-once", f"{len(alone)} / {len(after)} draws")
    sx.require(after[-1] == alone[0], "block-draw-depends-on-what-the-worker-generated-before",
               f"block {sx.conc(b)} after {[(sx.conc(a), sx.conc(c), sx.conc(d)) for a, c, d in earlier]}: generator state {after[-1][0]} vs {alone[0][0]} in a fresh process")
    key = alone[0][0][0]
    sx.require(isinstance(key, int), "block-draws-from-an-unseeded-generator", str(key))
    sx.require(alone[0][0][1:] == (0, 4, None, 0, None), "block-does-not-start-at-the-beginning-of-its-stream", str(alone[0][0]))
    if kv >= 1 and sx.conc(p0) != sx.conc(b):
        sx.require(after[0][0][0] != key, "distinct-blocks-share-a-stream", f"blocks {sx.conc(p0)} and {sx.conc(b)}")


class RecTarget(G.ZStub):
    """an existing target array (a storage array for cubed) that records what is written into it"""

    def __init__(self, shape, chunks, dtype, log, label):
        super().__init__(shape, chunks, dtype)
        self._log = log
        self._label = label

    def __setitem__(self, key, value):
        key = key if isinstance(key, tuple) else (key,)
        self._log.append(("write", self._label, tuple((k.start, k.stop) for k in key), _summ(value)))

    def set_basic_selection(self, key, value, fields=None):
        self.__setitem__(key, value)


def retarget_after_compute(n, c, blk0):
    """the same array object is first COMPUTED (its operation's task runs and writes the intermediate array) and then STORED with
    cubed.store (the real _store_array re-targets the operation's write proxy to the user's array): the task executed after that
    must write where the operation config NOW points -- no state left in the config by the earlier execution may redirect it"""
    import cubed
    from cubed.primitive.blockwise import apply_blockwise
    from cubed.storage.virtual import VirtualArray

    c01._start()
    sx.assume(c <= n)
    x = G.stub_array("x", (n,), (c,))
    b = c01._xp().negative(x)
    (opname, op), = [(o, p) for o, p in G.all_ops(b._plan.dag) if hasattr(p.pipeline.config, "writes_map")]
    spec = op.pipeline.config
    nb = sx.conc(-((-n) // c))
    coords = [sx.conc(blk0 % nb)]
    log = []
    # (1) compute: the task runs against recorders standing for the source and the lazily created intermediate array
    saved = []
    for m in (spec.reads_map, spec.writes_map):
        for nm, proxy in m.items():
            if not isinstance(proxy.array, VirtualArray):
                saved.append((proxy, proxy.array))
                proxy.array = RecArray(("first", nm), proxy.array, log, None)
    apply_blockwise(list(coords), config=spec)
    first = [e for e in log if e[0] == "write"]
    sx.require(len(first) == 1 and first[0][1][0] == "first", "first-execution-did-not-write-the-intermediate-array", str(first))
    for proxy, arr in saved:
        proxy.array = arr
    del log[:]
    # (2) store the same array object into an existing target: real store/_store_array
    target = RecTarget((n,), (c,), "float64", log, "target")
    (out,) = cubed.store([b], [target], compute=False)
    ops2 = [(o, p) for o, p in G.all_ops(out._plan.dag) if hasattr(p.pipeline.config, "writes_map")]
    wrote_to = []
    for o2, p2 in ops2:
        sp2 = p2.pipeline.config
        saved2 = []
        for nm, proxy in sp2.reads_map.items():
            if not isinstance(proxy.array, (VirtualArray, RecArray, RecTarget)):
                saved2.append((proxy, proxy.array))
                proxy.array = RecArray(("second", nm), proxy.array, log, None)
        try:
            if any(isinstance(wp.array, RecTarget) for wp in sp2.writes_map.values()):
                apply_blockwise(list(coords), config=sp2)
        finally:
            for proxy, arr in saved2:
                proxy.array = arr
    writes = [e for e in log if e[0] == "write"]
    sx.require(len(writes) == 1 and writes[0][1] == "target", "task-after-re-targeting-does-not-write-the-new-target",
               f"writes after store(): {[(e[1], e[2]) for e in writes]} (a stale handle from the earlier execution redirects the write)")


def create_preserves(struct, sub, g, e0, e1, w0, w1):
    """the create-arrays task (real create_zarr_arrays pipeline -> create_zarr_array -> LazyZarrArray.create -> open_storage_array ->
    open_zarr_v3_array) from an ARBITRARY pre-state of the store (each node of the array may or may not exist, with or without
    written chunks), then again after downstream tasks wrote chunks: array creation is open-or-create, never truncate"""
    import numpy as np

    import cubed.storage.stores.zarr_python_v3 as zv3
    from cubed.core.plan import create_zarr_arrays
    from cubed.storage.zarr import lazy_zarr_array
    from stubs import zarr_model as zm

    st, sb = sx.conc(struct), sx.conc(sub)
    path = [None, "sub"][sb]
    root = zm._join(path)
    fields = ["n", "total"] if st else []
    dtype = np.dtype([("n", "i8"), ("total", "f8")]) if st else np.dtype("float64")
    ex = [e0 == 1, e1 == 1]
    wr = [w0 == 1, w1 == 1]
    nodes = {}
    if st:
        sx.assume(sx.implies(sx.sor(ex[0], ex[1]), g == 1))  # a field array exists only inside an existing group
        nodes[root] = zm.Node("group", None, g == 1)
        arrays = [zm._join(root, f) for f in fields]
    else:
        sx.assume(sx.sand(e1 == 0, w1 == 0, g == 0))
        arrays = [root]
    for i, p in enumerate(arrays):
        sx.assume(sx.implies(wr[i], ex[i]))  # chunks can only have been written to an existing array
        # an array left by an earlier execution of the same plan has the declared layout (other layouts: C05 create-opens-declared-grid)
        fdt = dtype.fields[fields[i]][0] if st else dtype
        nodes[p] = zm.Node("array", None, ex[i], dict(shape=(4,), dtype=fdt, chunks=(2,)))
    model = zm.ZarrModel(nodes)
    written_before = {p: wr[i] for i, p in enumerate(arrays)}
    for i, p in enumerate(arrays):
        # the token of a pre-state node is "written" iff w_i (decided here so that the token is concrete on every path)
        nodes[p].token = "written" if bool(wr[i]) else None

    lza = lazy_zarr_array("memory://verif", (4,), dtype, (2,), path=path, compressors=None)
    op = create_zarr_arrays([lza], 10**6, 100)
    saved = zv3.zarr
    zv3.zarr = model
    try:
        def run_create():
            for m in op.pipeline.mappable:
                op.pipeline.function(m, config=op.pipeline.config)

        def survivors(label):
            for i, p in enumerate(arrays):
                n = model.nodes.get(p)
                sx.require(n is not None and n.kind == "array" and bool(n.exists), "array-missing-after-the-create-task", f"{label}: {p}")
            opened = lza.open()
            got = [opened[f] for f in fields] if st else [opened]
            sx.require([a.path for a in got] == arrays, "open-after-create-returns-other-arrays", f"{label}")
            return got

        try:
            run_create()
        except (ValueError, FileExistsError, FileNotFoundError, KeyError) as exn:
            raise sx.Violated("create-task-fails-on-a-store-state-left-by-an-earlier-execution", f"{type(exn).__name__}: {exn}") from exn
        got = survivors("first execution")
        for i, a in enumerate(got):
            sx.require(sx.implies(written_before[arrays[i]], a.token == "written"), "stored-chunks-lost-by-the-create-task",
                       f"{arrays[i]} held written chunks before the create task ran and is empty afterwards; store operations: {model.log}")
        # downstream tasks write chunks into every array; then a retry / backup twin of the create task runs (again and again)
        for p in arrays:
            model.nodes[p].token = "written"
        for rep in (1, 2):
            try:
                run_create()
            except (ValueError, FileExistsError, FileNotFoundError, KeyError) as exn:
                raise sx.Violated("duplicate-create-task-fails", f"{type(exn).__name__}: {exn}") from exn
            got = survivors(f"duplicate {rep}")
            for i, a in enumerate(got):
                sx.require(a.token == "written", "stored-chunks-lost-by-a-duplicated-create-task",
                           f"{arrays[i]}: chunks written by downstream tasks are gone after the create task ran again; store operations: {model.log}")
    finally:
        zv3.zarr = saved


def _zarr_model_validate():
    from stubs import zarr_model as zm

    return zm.validate()


def obligations(tier):
    import cubed.primitive.blockwise as pb
    import cubed.random as cr
    import cubed.utils as cu

    wall = 600 if tier == "quick" else 3000
    N = 5 if tier == "quick" else 8
    fns = [pb.apply_blockwise, pb.get_results_in_different_scope, pb.get_chunk, pb.key_to_slices, pb.map_nested]
    o = []
    scen = ["negative", "subtract[different-chunks]", "sum", "mean", "index[slice]", "concat", "stack", "repeat", "flip", "roll", "unstack", "rechunk", "permute_dims", "linalg.qr"]
    if tier != "quick":
        scen = list(c01.SCENARIOS) + list(c01.EXTRA_SCENARIOS)
    for nm in scen:
        if nm in ("cumulative_sum", "argmax"):
            continue
        _, vs = c01.SCENARIOS[nm] if nm in c01.SCENARIOS else c01.EXTRA_SCENARIOS[nm]
        o.append(Obl(f"pure-task[{nm}]", (lambda nm: lambda **kw: task_purity(nm, **kw))(nm), vs(N) + [("blk0", 0, N + 6), ("blk1", 0, 3)], allowed=c01.ALLOWED + (AssertionError,),
                     setup=c01.setup, functions=fns, wall_s=wall, bounds=f"as C01 with sizes <= {N}; one task of every operation of the plan at a symbolic block coordinate, executed twice through the real apply_blockwise",
                     outside="NumPy determinism; cloudpickle; executors", stubs=["recording arrays", "anp"], witness_rule=lambda m: m.get("n", m.get("n1", 0)) >= 2))
    o.append(Obl("random-block-seeds", random_keys, [("nb0", 1, 4), ("nb1", 1, 4), ("b0", 0, 3), ("b1", 0, 3), ("c0", 0, 3), ("c1", 0, 3), ("seed", 0, 2**128 - 1)],
                 setup=rng_validate, functions=[cr._random, cr.random, cu.block_id_to_offset], wall_s=wall,
                 bounds="block grids up to 4x4, every pair of block ids, every 128-bit root seed (the range of random.getrandbits(128))",
                 stubs=["Philox/Generator recording stub (key range as NumPy)"]))

    o.append(Obl("random-state-independence", random_state_independence,
                 [("nb", 1, 2), ("b", 0, 1), ("n", 1, 2), ("f32", 0, 1), ("k", 0, 2), ("p0", 0, 1), ("pn0", 1, 3), ("pf0", 0, 1), ("p1", 0, 1), ("pn1", 1, 2), ("pf1", 0, 1), ("seed", 0, 1)] if tier == "quick" else
                 [("nb", 1, 3), ("b", 0, 2), ("n", 1, 3), ("f32", 0, 1), ("k", 0, 2), ("p0", 0, 2), ("pn0", 1, 3), ("pf0", 0, 1), ("p1", 0, 2), ("pn1", 1, 3), ("pf1", 0, 1), ("seed", 0, 2)],
                 setup=rng_validate, functions=[cr._random, cr.random, cu.block_id_to_offset], wall_s=wall,
                 bounds="1-d grids of 1..2 (thorough: 3) blocks; 0..2 earlier blocks on the same worker with 1..3 elements each, float32 or float64; the block itself 1..2 (3) elements of either dtype; "
                        "root seeds 5, 2**128-1 (and 2**64); all of these forked by value; the whole current source of cubed/random.py is executed in a fresh namespace per 'process'",
                 outside="NumPy's Philox implementation beyond the state evolution checked at start (counter, buffer position, cached 32-bit half)",
                 stubs=["Philox/Generator state model (harness/c06.py), validated against the installed NumPy at check start"],
                 witness_rule=lambda m: m["k"] >= 1))

    import cubed.core.plan as cp
    import cubed.storage.store as cst
    import cubed.storage.stores.zarr_python_v3 as zv3
    import cubed.storage.zarr as csz

    CV = [("struct", 0, 1), ("sub", 0, 1), ("g", 0, 1), ("e0", 0, 1), ("e1", 0, 1), ("w0", 0, 1), ("w1", 0, 1)]
    o.append(Obl("create-never-truncates", create_preserves, CV, setup=_zarr_model_validate,
                 functions=[cp.create_zarr_arrays, cp.create_zarr_array, csz.LazyZarrArray.create, csz.LazyZarrArray.open, cst.open_storage_array, zv3.open_zarr_v3_array,
                            zv3.ZarrV3ArrayGroup.__getitem__], wall_s=wall,
                 bounds="plain and structured (2-field) dtypes, array at the store root or under a path; every pre-state of the store (group / each field array present or not, "
                        "holding written chunks or not) as solver variables; the create task run once, then twice more after downstream writes",
                 outside="the zarr library itself (model validated against the installed zarr on 120 operation x pre-state combinations at start); obstore / zarrs back ends",
                 stubs=["stubs/zarr_model.py standing in for the `zarr` module inside cubed.storage.stores.zarr_python_v3"],
                 witness_rule=lambda m: m["e0"] == 1 and m["w0"] == 1))

    import cubed.core.ops as cops
    import cubed.primitive.types as cpt

    o.append(Obl("retarget[compute-then-store]", retarget_after_compute, [("n", 1, N), ("c", 1, N), ("blk0", 0, N + 6)], allowed=c01.ALLOWED, setup=c01.setup,
                 functions=fns + [cops._store_array, cops.store, cpt.CubedArrayProxy.open], wall_s=wall,
                 bounds=f"negative(x) with length/chunks <= {N}: its task executed once (as compute does), then the array stored into an existing target by the real store(), "
                        "then the task executed again at a symbolic block coordinate",
                 outside="other histories (store twice, fused producers); executors", stubs=["recording arrays / recording target"], witness_rule=lambda m: m["n"] >= 2))

    def ctwin(**kw):
        create_preserves(**kw)
        raise sx.Violated("reached-end")

    o.append(Obl("twin:create-never-truncates", ctwin, CV, setup=_zarr_model_validate, twin_of="create-never-truncates", wall_s=wall))

    def twin(**kw):
        task_purity("concat", **kw)
        raise sx.Violated("reached-end")

    _, vs = c01.SCENARIOS["concat"]
    o.append(Obl("twin:pure-task[concat]", twin, vs(N) + [("blk0", 0, N + 6), ("blk1", 0, 3)], allowed=c01.ALLOWED, setup=c01.setup, twin_of="pure-task[concat]", wall_s=wall))
    return o
