"""C04 -- over-budget plans are refused before anything runs; fusion stays within budget.

Real code: Plan._finalize, Plan._find_ops_exceeding_memory, FinalizedPlan.__init__/_calculate_stats/validate/execute,
multiple_inputs_optimize_dag / fuse_predecessors / can_fuse_predecessors, simple_optimize_dag, fuse_all_optimize_dag,
can_fuse_multiple_primitive_ops, peak_projected_mem (MemoryModeller), fuse, fuse_multiple -- on real plans (real
construction, concrete small geometry) whose per-operation projected memory, result-chunk memory and allowed memory
are solver variables.
"""
from __future__ import annotations

from engine import sx
from engine.obligation import Obl
from harness import plans as P

EXPLANATION = (
    "bounded symbolic execution (sx/z3) of the real finalization / validation / execution entry and of the real optimizers on real "
    "plans with symbolic per-operation memory: refusal iff some operation is over budget (boundary included), no side effect on the "
    "refusal path, fused projected memory >= constituents, default optimization preserves admissibility"
)
TRUSTED_BASE = ["geom backend (metadata arrays)", "recording stub executor / callbacks (observe that nothing was called)"]
ASSUMPTIONS = ["an operation's projected memory is at least its result-chunk memory (true for every real op: the projection includes the output chunk twice)",
               "memory values < 1000 bytes in these obligations (keeps memory_repr's float formatting out of the path); the comparisons are linear, so the bound is immaterial"]


class RecExecutor:
    name = "recording"

    def __init__(self, log):
        self.log = log

    def execute_dag(self, dag, **kw):
        self.log.append(("execute_dag",))


class RecCallback:
    def __init__(self, log):
        self.log = log

    def on_compute_start(self, e):
        self.log.append(("compute_start",))

    def on_compute_end(self, e):
        self.log.append(("compute_end",))

    def on_operation_start(self, e):
        self.log.append(("op_start",))

    def on_operation_end(self, e):
        self.log.append(("op_end",))

    def on_task_end(self, e):
        self.log.append(("task_end",))


def admission(topology, optimize, **kw):
    """execute() raises ValueError iff some op of the final plan has projected > allowed; nothing runs on that path"""
    outs, _ = P.build(topology)
    plan = P.plan_of(outs)
    A = kw["A"]
    n = P.symbolize_memory(plan.dag, kw, allowed=A)
    fp = plan._finalize(optimize_graph=bool(optimize))
    final_ops = [(name, d["primitive_op"]) for name, d in fp.dag.nodes(data=True) if "primitive_op" in d]
    over = sx.sor(*[op.projected_mem > op.allowed_mem for _, op in final_ops])
    log = []
    creates = []
    # any attempt to create an array in storage would go through LazyZarrArray.create/open
    from cubed.storage.zarr import LazyZarrArray

    orig_create, orig_open = LazyZarrArray.create, LazyZarrArray.open
    LazyZarrArray.create = lambda self, *a, **k: creates.append("create")
    LazyZarrArray.open = lambda self, *a, **k: creates.append("open")
    try:
        try:
            fp.execute(executor=RecExecutor(log), callbacks=[RecCallback(log)])
            raised = False
        except ValueError:
            raised = True
    finally:
        LazyZarrArray.create, LazyZarrArray.open = orig_create, orig_open
    if over:
        sx.require(raised, "over-budget-plan-was-executed", f"ops {[(nm, op.projected_mem, op.allowed_mem) for nm, op in final_ops]}")
        sx.require(log == [] and creates == [], "side-effects-before-the-refusal", f"{log} {creates}")
        sx.require(fp.exceeds_memory and len(fp.ops_exceeding_memory) >= 1, "exceeds_memory-flag-wrong")
        worst = fp.ops_exceeding_memory[0][1]
        for _, op in fp.ops_exceeding_memory:
            sx.require(worst.projected_mem >= op.projected_mem, "worst-offender-not-first")
    else:
        sx.require(not raised, "plan-within-budget-was-refused", f"ops {[(nm, op.projected_mem, op.allowed_mem) for nm, op in final_ops]}")
        sx.require(log == [("compute_start",), ("execute_dag",), ("compute_end",)], "execute-did-not-run-exactly-once-between-compute-events", f"{log}")
        sx.require(not fp.exceeds_memory, "exceeds_memory-flag-wrong")
    mx = 0
    for _, op in final_ops:
        mx = sx.ite(op.projected_mem > mx, op.projected_mem, mx) if isinstance(op.projected_mem, sx.SInt) or isinstance(mx, sx.SInt) else max(mx, op.projected_mem)
    sx.require(fp.max_projected_mem == mx, "max_projected_mem-is-not-the-maximum")


def fusion_budget(topology, optimizer, **kw):
    """(ii) default optimization keeps a fitting plan fitting; (iii) a fused op reports >= each op it replaced"""
    import cubed.core.optimization as co

    outs, named = P.build(topology)
    plan = P.plan_of(outs)
    A = kw["A"]
    P.symbolize_memory(plan.dag, kw, allowed=A)
    before = {n: d["primitive_op"] for n, d in plan.dag.nodes(data=True) if "primitive_op" in d}
    before_mem = {n: op.projected_mem for n, op in before.items()}
    all_fit = sx.sand(*[op.projected_mem <= A for op in before.values()])
    names = tuple(a.name for a in outs)
    if optimizer == "default":
        dag = co.multiple_inputs_optimize_dag(plan.dag, array_names=names)
    elif optimizer == "default-limits":
        dag = co.multiple_inputs_optimize_dag(plan.dag, array_names=names, max_total_source_arrays=sx.conc(kw["msa"]),
                                              max_total_num_input_blocks=(None if sx.conc(kw["mib"]) == 0 else sx.conc(kw["mib"])))
    elif optimizer == "simple":
        dag = co.simple_optimize_dag(plan.dag, array_names=names)
    elif optimizer == "fuse-all":
        dag = co.fuse_all_optimize_dag(plan.dag, array_names=names)
    else:
        raise KeyError(optimizer)
    after = {n: d["primitive_op"] for n, d in dag.nodes(data=True) if "primitive_op" in d}
    # which original ops were folded into which surviving op: an original op that disappeared was fused into a
    # surviving successor; recover it from the source arrays the surviving op now reads
    removed = [n for n in before if n not in after]
    for n, op in after.items():
        if before[n] is op:
            continue
        # op is a fused operation that replaced before[n] and some removed predecessors
        sx.require(op.projected_mem >= before_mem[n], "fused-op-reports-less-memory-than-the-op-it-replaced", f"{n}")
        preds = _fused_predecessors(plan.dag, dag, n, removed)
        for p in preds:
            sx.require(op.projected_mem >= before_mem[p], "fused-op-reports-less-memory-than-a-fused-predecessor", f"{n} <- {p}: {op.projected_mem} vs {before_mem[p]}")
        sx.require(op.allowed_mem == A and op.num_tasks == before[n].num_tasks, "fused-op-metadata-changed")
    if optimizer != "fuse-all" and all_fit:
        for n, op in after.items():
            sx.require(op.projected_mem <= A, "optimization-made-a-fitting-plan-exceed-allowed-mem", f"{n}: {op.projected_mem} > {A}")
    sx.note(("removed", removed))


def _fused_predecessors(dag0, dag1, n, removed):
    """original op nodes (transitively) folded into surviving node n"""
    out = set()
    frontier = [n]
    while frontier:
        cur = frontier.pop()
        for arr in dag0.predecessors(cur):
            if arr in dag1:
                continue  # the array still exists: not fused through
            for p in dag0.predecessors(arr):
                if p in removed and p not in out:
                    out.add(p)
                    frontier.append(p)
    return out


def peak_model(k, **kw):
    """peak_projected_mem equals the reference recurrence: allocate all, keep only the result chunk"""
    from cubed.primitive.blockwise import peak_projected_mem
    from cubed.primitive.types import PrimitiveOperation

    k = sx.conc(k)
    ops = []
    for i in range(k):
        pm, cm = kw[f"m{i}"], kw[f"c{i}"]
        sx.assume(cm <= pm)
        ops.append(PrimitiveOperation(pipeline=None, source_array_names=[], target_array=P.Tgt(f"t{i}", cm, None), projected_mem=pm, allowed_mem=0, reserved_mem=0, num_tasks=1))
    if sx.conc(kw["none_at"]) < k:
        ops.insert(sx.conc(kw["none_at"]), None)
    got = peak_projected_mem(ops)
    # reference
    cur = 0
    peak = 0
    for op in ops:
        if op is None:
            continue
        cand = cur + op.projected_mem
        peak = sx.ite(cand > peak, cand, peak)
        cur = cur + op.target_array.chunkmem
    sx.require(got == peak, "peak_projected_mem-differs-from-reference", f"{got} vs {peak}")
    for op in ops:
        if op is not None:
            sx.require(got >= op.projected_mem, "peak-below-a-constituent")


def obligations(tier):
    import cubed.core.optimization as co
    import cubed.core.plan as cp
    import cubed.primitive.blockwise as pb
    import cubed.primitive.memory as pm

    fns = [cp.Plan._finalize, cp.Plan._find_ops_exceeding_memory, cp.FinalizedPlan.__init__, cp.FinalizedPlan._calculate_stats, cp.FinalizedPlan.validate,
           cp.FinalizedPlan.execute, co.multiple_inputs_optimize_dag, co.fuse_predecessors, co.can_fuse_predecessors, co.simple_optimize_dag,
           co.fuse_all_optimize_dag, pb.can_fuse_multiple_primitive_ops, pb.can_fuse_primitive_ops, pb.peak_projected_mem, pb.fuse, pb.fuse_multiple,
           pm.MemoryModeller.allocate, pm.MemoryModeller.free]
    wall = 600 if tier == "quick" else 3000
    MAXOPS = 8
    V = [(f"m{i}", 0, 40) for i in range(MAXOPS)] + [(f"c{i}", 0, 40) for i in range(MAXOPS)] + [("A", 0, 40)]
    common = dict(functions=fns, wall_s=wall, stubs=["geom metadata arrays", "recording executor/callbacks"], outside="side effects inside third-party executors; real stores")
    o = []
    tops = ("chain3", "diamond", "two-computed-inputs", "multi-output") if tier == "quick" else P.TOPOLOGIES
    for t in tops:
        for opt in (0, 1):
            o.append(Obl(f"admission[{t},optimize={opt}]", (lambda t, opt: lambda **kw: admission(t, opt, **kw))(t, opt), V,
                         bounds="real plan topology; per-op projected memory, result-chunk memory and allowed_mem 0..40 (all comparisons linear): both sides of and exactly at projected == allowed",
                         witness_rule=lambda m: True, **common))
    for t in (("chain3", "diamond", "two-computed-inputs", "repeated-arg", "reduce-chain") if tier == "quick" else P.TOPOLOGIES):
        for optz in ("default", "simple", "fuse-all"):
            o.append(Obl(f"fusion-budget[{t},{optz}]", (lambda t, optz: lambda **kw: fusion_budget(t, optz, **kw))(t, optz), V,
                         bounds="real plan topology, symbolic memory 0..40, optimizer " + optz, witness_rule=lambda m: True, **common))
    o.append(Obl("fusion-budget[diamond,default-limits]", lambda **kw: fusion_budget("diamond", "default-limits", **kw), V + [("msa", 0, 5), ("mib", 0, 6)],
                 bounds="max_total_source_arrays 0..5, max_total_num_input_blocks None/1..6", **common))
    o.append(Obl("fusion-budget[mixed-levels,default-limits]", lambda **kw: fusion_budget("mixed-levels", "default-limits", **kw), V + [("msa", 0, 5), ("mib", 0, 6)],
                 bounds="max_total_source_arrays 0..5, max_total_num_input_blocks None/1..6", **common))
    o.append(Obl("peak_projected_mem", peak_model, [("k", 0, 4), ("none_at", 0, 5)] + [(f"m{i}", 0, 10**9) for i in range(4)] + [(f"c{i}", 0, 10**9) for i in range(4)],
                 functions=[pb.peak_projected_mem, pm.MemoryModeller.allocate, pm.MemoryModeller.free], wall_s=wall, bounds="0..4 ops (one optionally None), memory values up to 10**9"))

    def twin(**kw):
        fusion_budget("diamond", "default", **kw)
        raise sx.Violated("reached-end")

    o.append(Obl("twin:fusion-budget[diamond,default]", twin, V, twin_of="fusion-budget[diamond,default]", wall_s=wall))
    return o
