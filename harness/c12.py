"""C12 -- declared shape/dtype/chunks are truthful; written blocks match their chunk shape.

The C01 catalogue (plus qr, reshape, matmul, argmax) is built through the real construction path with symbolic
geometry; then ONE TASK OF EVERY OPERATION of the real plan (intermediate ops, every output of multi-output
ops) is run at a symbolic block coordinate on abstract blocks: the shape the real block function returns for the
blocks the real key function selects must equal the extent of the region key_to_slices computes for the write;
the declared shape must equal NumPy's and the sum of the declared chunks; the backing lazy Zarr array must be
created with the declared shape/dtype/chunk grid.
"""
from __future__ import annotations

from engine import sx
from engine.obligation import Obl
from harness import c01

EXPLANATION = (
    "bounded symbolic execution (sx/z3): real construction path + one task of every operation of the real plan at a symbolic "
    "block coordinate on abstract blocks (shape transfer of NumPy functions from stubs/anp); block shape == write region "
    "extent, declared shape == NumPy's == sum(chunks), backing array metadata == declared, decided for all geometries in the bound"
)
TRUSTED_BASE = c01.TRUSTED_BASE
ASSUMPTIONS = ["dtype truthfulness is a finite table of NumPy casting results with no symbolic domain: only the dtype recorded for the backing array is compared with the declared one"]


def dtype_store_existing(n, c, tc, lazy, tdt):
    """the array store()/to_zarr return for an EXISTING target reports a dtype: it must be the dtype of the Zarr array that backs it
    (or the call must be refused) -- the values are cast to the target's dtype when they are written"""
    import cubed
    from geom import backend as G

    c01._start()
    sx.assume(c <= n)
    sx.assume(tc <= n)
    x = G.stub_array("x", (n,), (c,))
    src = c01._xp().negative(x) if sx.conc(lazy) else x
    tdtype = ["float64", "int32", "float32"][sx.conc(tdt)]
    target = G.ZStub((n,), (tc,), tdtype)
    try:
        (out,) = cubed.store([src], [target], compute=False)
    except (ValueError, TypeError, NotImplementedError):
        return  # refused up front: allowed
    z = out._zarray
    sx.require(str(z.dtype) == str(out.dtype), "declared-dtype-differs-from-the-backing-array", f"result reports {out.dtype}, the Zarr array it is written to has {z.dtype}")


def obligations(tier):
    N = 6 if tier == "quick" else 10
    wall = 600 if tier == "quick" else 3000
    B = N + 6
    obls = []
    scen = dict(c01.SCENARIOS)
    scen.update(c01.EXTRA_SCENARIOS)
    from harness import c01b  # second catalogue + scenarios that only state shapes (isin, searchsorted)

    scen.update({k: v for k, v in c01b.SCENARIOS.items() if k not in c01b.ROUTE_ONLY})
    scen.update(c01b.SHAPE_ONLY)
    for name, (fn, vs) in scen.items():
        obls.append(
            Obl(
                f"blocks[{name}]",
                c01.wrap(fn, "tasks", True),
                vs(N) + [("blk0", 0, B), ("blk1", 0, 3)],
                allowed=c01.ALLOWED,
                setup=c01.setup,
                functions=c01._functions(),
                bounds=f"lengths/chunk sizes up to {N} per symbolic dim, every block coordinate of every operation of the plan",
                outside="dtype casting tables; >2 dims; what Zarr does inside one __setitem__",
                stubs=["anp.Namespace (nxp)", "indexer_model", "np integer kernels"],
                wall_s=wall,
                witness_rule=lambda m: m.get("n", m.get("n1", 0)) >= 2,
            )
        )
    obls.append(Obl("dtype[store-existing-target]", dtype_store_existing, [("n", 1, N), ("c", 1, N), ("tc", 1, N), ("lazy", 0, 1), ("tdt", 0, 2)], allowed=c01.ALLOWED, setup=c01.setup,
                    functions=c01._functions(), wall_s=wall,
                    bounds=f"store of a float64 source (leaf or uncomputed) of length <= {N} into an existing target with its own chunking whose dtype is float64, int32 or float32",
                    outside="which values a cast produces (NumPy's casting table)", stubs=["geom.ZStub target"], witness_rule=lambda m: m["tdt"] >= 1))
    fn, vs = c01.SCENARIOS["concat"]

    def twin(**kw):
        c01.wrap(fn, "tasks", True)(**kw)
        raise sx.Violated("reached-end-of-task-walk")

    obls.append(Obl("twin:blocks[concat]", twin, vs(N) + [("blk0", 0, B), ("blk1", 0, 3)], allowed=c01.ALLOWED, setup=c01.setup, twin_of="blocks[concat]", wall_s=wall))
    return obls
