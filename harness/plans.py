"""Shared: a catalogue of *real* plans (real construction on metadata arrays with concrete small geometry) whose
operation metadata (projected/allowed memory, result-chunk memory, fan-in limits, store state) is then made symbolic."""
from __future__ import annotations

from engine import sx
from geom import backend as G


class Tgt:
    """stands for the target array of an operation when only its memory / store state matters"""

    def __init__(self, name, chunkmem, base):
        self.name = name
        self.chunkmem = chunkmem
        self.base = base
        self.shape = getattr(base, "shape", ())
        self.dtype = getattr(base, "dtype", None)
        self.chunks = getattr(base, "chunks", ())

    @property
    def nbytes(self):
        return getattr(self.base, "nbytes", 0)

    @property
    def nchunks(self):
        return getattr(self.base, "nchunks", 1)


TOPOLOGIES = ("chain3", "diamond", "two-computed-inputs", "repeated-arg", "reduce-chain", "multi-output", "mixed-levels", "requested-intermediate")


def build(name):
    """-> (list of output arrays to request, dict of named arrays)"""
    G.install()
    G.reset_names()
    import cubed.array_api as xp

    x = G.stub_array("x", (4,), (2,))
    y = G.stub_array("y", (4,), (2,))
    if name == "chain3":
        a = xp.negative(x)
        b = xp.abs(a)
        c = xp.exp(b)
        return [c], {"a": a, "b": b, "c": c}
    if name == "diamond":
        a = xp.negative(x)
        b = xp.abs(a)
        c = xp.exp(a)
        d = xp.add(b, c)
        return [d], {"a": a, "b": b, "c": c, "d": d}
    if name == "two-computed-inputs":
        a = xp.negative(x)
        b = xp.abs(y)
        c = xp.add(a, b)
        return [c], {"a": a, "b": b, "c": c}
    if name == "repeated-arg":
        a = xp.negative(x)
        c = xp.add(a, a)
        return [c], {"a": a, "c": c}
    if name == "reduce-chain":
        a = xp.negative(x)
        s = xp.sum(a, split_every=2)
        t = xp.negative(s)
        return [t], {"a": a, "s": s, "t": t}
    if name == "multi-output":
        m = G.stub_array("m", (2, 4), (1, 2))
        n = xp.negative(m)
        u0, u1 = xp.unstack(n, axis=0)
        w = xp.add(u0, u1)
        return [w], {"n": n, "u0": u0, "u1": u1, "w": w}
    if name == "mixed-levels":
        a = xp.negative(x)
        b = xp.abs(a)
        c = xp.add(b, y)  # one computed (depth 2) and one source input
        d = xp.add(c, a)  # a used at two levels
        return [d], {"a": a, "b": b, "c": c, "d": d}
    if name == "requested-intermediate":
        a = xp.negative(x)
        b = xp.abs(a)
        c = xp.exp(b)
        return [c, b], {"a": a, "b": b, "c": c}
    raise KeyError(name)


def plan_of(outs):
    from cubed.core.plan import arrays_to_plan

    return arrays_to_plan(*outs)


def op_nodes(dag):
    return [n for n, d in dag.nodes(data=True) if "primitive_op" in d]


def symbolize_memory(dag, kw, prefix="m", allowed=None):
    """replace projected_mem / target chunk memory of every primitive op by symbolic values (in place on the ops)"""
    import dataclasses

    k = 0
    for n in sorted(op_nodes(dag)):
        op = dag.nodes[n]["primitive_op"]
        pm = kw[f"{prefix}{k}"]
        cm = kw[f"c{k}"]
        sx.assume(cm <= pm)  # a real op's projection includes its output chunk
        op.projected_mem = pm
        if allowed is not None:
            op.allowed_mem = allowed
        tgt = op.target_array
        if isinstance(tgt, list):
            op.target_array = [Tgt(f"{n}.{j}", cm, t) for j, t in enumerate(tgt)]
        else:
            op.target_array = Tgt(n, cm, tgt)
        k += 1
    return k
