"""C01 -- second catalogue of route scenarios (same oracle as harness/c01.py): reductions over other axes / all axes /
keepdims, nan-reductions, apply_gufunc with a core dimension, isin, searchsorted, 2-d rechunk under a small memory budget
(multi-stage plans), take along either axis, multi-axis indexing with newaxis, squeeze/expand_dims with negative axes,
broadcast_arrays, matrix_transpose, element-wise with Python scalars, clip with array bounds, cumulative_prod, diff of higher
order / with append, symmetric pad, tensordot values, full/ones leaves, min/prod/all over 2-d."""
from __future__ import annotations

from engine import sx
from geom import backend as G
from stubs import anp

from . import c01 as B


def _xp():
    return B._xp()


def sc_sum_2d_axes(n, m, c, c2, s, ax, kd, j, j2, e):
    """sum over axis 1 / -1 / both axes / None of an (n, m) array, with and without keepdims"""
    B._start()
    sx.assume(c <= n)
    sx.assume(c2 <= m)
    sx.assume(j < n)
    sx.assume(j2 < m)
    x = G.stub_array("x", (n, m), (c, c2))
    axv = sx.conc(ax)
    kdv = bool(sx.conc(kd))
    axis = [1, -1, (0, 1), None, (1, 0), -2][axv]
    out = _xp().sum(x, axis=axis, keepdims=kdv, split_every=s)
    over0 = axv in (2, 3, 4, 5)
    over1 = axv in (0, 1, 2, 3, 4)
    shape = []
    for d, (ext, red) in enumerate(((n, over0), (m, over1))):
        if red:
            if kdv:
                shape.append(1)
        else:
            shape.append(ext)
    B._declared_ok(out, tuple(shape))
    # output index: e ranges over the kept axis (if any)
    idx = []
    kept = None
    for d, (ext, red) in enumerate(((n, over0), (m, over1))):
        if red:
            if kdv:
                idx.append(0)
        else:
            sx.assume(e < ext)
            idx.append(e)
            kept = d
    t, _ = B._elem(out, tuple(idx))
    mlt = anp.term_mult(t, ("x", (j, j2)))
    if kept is None:
        want = 1
    elif kept == 0:
        want = sx.ite(j == e, 1, 0)
    else:
        want = sx.ite(j2 == e, 1, 0)
    sx.require(mlt == want, "wrong-reduction-group", f"x[{j},{j2}] contributes {mlt} times to out{tuple(idx)} (axis={axis}, keepdims={kdv})")


def _sc_reduce2(fname):
    def sc(n, m, c, c2, s, ax, j, j2, e):
        B._start()
        sx.assume(c <= n)
        sx.assume(c2 <= m)
        sx.assume(j < n)
        sx.assume(j2 < m)
        dt = "bool" if fname in ("all", "any") else "float64"
        x = G.stub_array("x", (n, m), (c, c2), dtype=dt)
        axv = sx.conc(ax)
        axis = [0, 1, None][axv]
        out = getattr(_xp(), fname)(x, axis=axis, split_every=s)
        if axv == 0:
            B._declared_ok(out, (m,))
            sx.assume(e < m)
            t, _ = B._elem(out, (e,))
            want = sx.ite(j2 == e, 1, 0)
        elif axv == 1:
            B._declared_ok(out, (n,))
            sx.assume(e < n)
            t, _ = B._elem(out, (e,))
            want = sx.ite(j == e, 1, 0)
        else:
            B._declared_ok(out, ())
            t, _ = B._elem(out, ())
            want = 1
        mlt = anp.term_mult(t, ("x", (j, j2)))
        sx.require(mlt == want, "wrong-reduction-group", f"{fname}: x[{j},{j2}] contributes {mlt} times (axis={axis})")

    sc.__name__ = f"sc_{fname}_2d"
    return sc


def sc_nansum(n, c, s, j):
    B._start()
    sx.assume(c <= n)
    sx.assume(j < n)
    x = G.stub_array("x", (n,), (c,))
    import cubed

    out = cubed.nansum(x, split_every=s)
    B._declared_ok(out, ())
    t, _ = B._elem(out, ())
    m = anp.term_mult(t, ("x", (j,)))
    sx.require(m == 1, "source-element-not-counted-exactly-once", f"x[{j}] contributes {m} times")


def sc_nanmean(n, m, c, c2, s, j, j2, e):
    """nanmean over axis 0 of a 2-d array: the `total` field collects column e once per row"""
    B._start()
    sx.assume(c <= n)
    sx.assume(c2 <= m)
    sx.assume(j < n)
    sx.assume(j2 < m)
    sx.assume(e < m)
    x = G.stub_array("x", (n, m), (c, c2))
    import cubed

    out = cubed.nanmean(x, axis=0, split_every=s)
    B._declared_ok(out, (m,))
    t, _ = B._elem(out, (e,))
    sx.require(t[0] == "fn" and t[1] == "divide", "nanmean-not-a-division", str(t)[:200])
    mlt = anp.term_mult(t[2][0], ("x", (j, j2)))
    sx.require(mlt == sx.ite(j2 == e, 1, 0), "wrong-reduction-group", f"x[{j},{j2}] contributes {mlt} times to the total of out[{e}]")


def sc_gufunc_core(n, m, c, e, j, j2):
    """apply_gufunc(f, '(i)->()', x): out[e] = f(x[e, :]) -- the core dimension must be a single chunk (cubed rechunks or refuses)"""
    B._start()
    sx.assume(c <= n)
    sx.assume(e < n)
    sx.assume(j < n)
    sx.assume(j2 < m)
    x = G.stub_array("x", (n, m), (c, m))
    import cubed

    nxp = B.anp_ns()
    out = cubed.apply_gufunc(lambda a: nxp.sum(a, axis=-1), "(i)->()", x, output_dtypes="float64")
    B._declared_ok(out, (n,))
    t, _ = B._elem(out, (e,))
    mlt = anp.term_mult(t, ("x", (j, j2)))
    sx.require(mlt == sx.ite(j == e, 1, 0), "gufunc-wrong-core-slice", f"x[{j},{j2}] contributes {mlt} times to out[{e}]")


def sc_gufunc_two(n, m, c, c2, e, e2):
    """apply_gufunc(f, '(),()->()', x, y) with broadcasting of a 1-d against a 2-d operand"""
    B._start()
    sx.assume(c <= n)
    sx.assume(c2 <= m)
    sx.assume(e < n)
    sx.assume(e2 < m)
    x = G.stub_array("x", (n, m), (c, c2))
    y = G.stub_array("y", (m,), (c2,))
    import cubed

    nxp = B.anp_ns()
    out = cubed.apply_gufunc(lambda a, b: nxp.subtract(a, b), "(),()->()", x, y, output_dtypes="float64")
    B._declared_ok(out, (n, m))
    t, _ = B._elem(out, (e, e2))
    B._expect(t, ("fn", "subtract", (("elem", "x", (e, e2)), ("elem", "y", (e2,)))))


def sc_rechunk_2d(n, m, c, c2, d, d2, M, mn, irr, e, e2):
    """rechunk of a 2-d int8 array under a tight memory budget (multi-stage plans with intermediate arrays, regular and irregular
    planner): every element preserved, requested chunks.  Geometry forked by value (keeps the planner arithmetic linear); the
    budget, min_mem and the element stay symbolic."""
    import warnings

    B._start()
    n, m, c, c2, d, d2 = (sx.conc(v) for v in (n, m, c, c2, d, d2))
    if c > n or c2 > m or d > n or d2 > m:
        raise sx.Infeasible()
    sx.assume(e < n)
    sx.assume(e2 < m)
    import cubed

    spec = cubed.Spec(work_dir="/nonexistent-verif", allowed_mem=M, reserved_mem=0)
    x = G.stub_array("x", (n, m), (c, c2), dtype="int8", spec=spec)
    with warnings.catch_warnings():
        warnings.simplefilter("ignore")
        out = x.rechunk((d, d2), min_mem=mn, allow_irregular=bool(sx.conc(irr)))
    B._declared_ok(out, (n, m))
    sx.require(out.chunksize[0] == d and out.chunksize[1] == d2, "rechunk-result-chunks-differ-from-request", f"{out.chunks}")
    t, _ = B._elem(out, (e, e2))
    B._expect(t, ("elem", "x", (e, e2)))


def sc_take_axis(n, m, c, c2, ax, i0, i1, e, p):
    """take(x, [i0, i1], axis=ax) on a 2-d array"""
    B._start()
    sx.assume(c <= n)
    sx.assume(c2 <= m)
    axv = sx.conc(ax)
    ext = (n, m)[axv]
    sx.assume(i0 < ext)
    sx.assume(i1 < ext)
    import numpy as np

    x = G.stub_array("x", (n, m), (c, c2))
    i0v, i1v = sx.conc(i0), sx.conc(i1)
    out = _xp().take(x, np.array([i0v, i1v]), axis=axv)
    pv = sx.conc(p)
    if axv == 0:
        B._declared_ok(out, (2, m))
        sx.assume(e < m)
        t, _ = B._elem(out, (pv, e))
        B._expect(t, ("elem", "x", ((i0v, i1v)[pv], e)))
    else:
        B._declared_ok(out, (n, 2))
        sx.assume(e < n)
        t, _ = B._elem(out, (e, pv))
        B._expect(t, ("elem", "x", (e, (i0v, i1v)[pv])))


def sc_index_2d_mixed(n, m, c, c2, a, st, kind, e, e2):
    """2-d indexing: [a:, ::st], [..., a], [None, a:, :], [a::st, None, 1:]"""
    B._start()
    sx.assume(c <= n)
    sx.assume(c2 <= m)
    sx.assume(a < n)
    sx.assume(a < m)
    x = G.stub_array("x", (n, m), (c, c2))
    av, stv, k = sx.conc(a), sx.conc(st), sx.conc(kind)
    nv, mv = sx.conc(n), sx.conc(m)
    ev, e2v = sx.conc(e), sx.conc(e2)
    if k == 0:
        out = x[av:, ::stv]
        r0, r1 = range(av, nv), range(0, mv, stv)
        B._declared_ok(out, (len(r0), len(r1)))
        sx.assume(ev < len(r0))
        sx.assume(e2v < len(r1))
        t, _ = B._elem(out, (ev, e2v))
        B._expect(t, ("elem", "x", (r0[ev], r1[e2v])))
    elif k == 1:
        out = x[..., av]
        B._declared_ok(out, (n,))
        sx.assume(ev < nv)
        t, _ = B._elem(out, (ev,))
        B._expect(t, ("elem", "x", (ev, av)))
    elif k == 2:
        out = x[None, av:, :]
        r0 = range(av, nv)
        B._declared_ok(out, (1, len(r0), m))
        sx.assume(ev < len(r0))
        sx.assume(e2v < mv)
        t, _ = B._elem(out, (0, ev, e2v))
        B._expect(t, ("elem", "x", (r0[ev], e2v)))
    else:
        out = x[av::stv, None, 1:]
        r0, r1 = range(av, nv, stv), range(1, mv)
        B._declared_ok(out, (len(r0), 1, len(r1)))
        sx.assume(ev < len(r0))
        sx.assume(e2v < len(r1))
        t, _ = B._elem(out, (ev, 0, e2v))
        B._expect(t, ("elem", "x", (r0[ev], r1[e2v])))


def sc_squeeze_expand_neg(n, c, k, e):
    """expand_dims with a negative axis followed by squeeze of that axis (given as a negative number / a tuple)"""
    B._start()
    sx.assume(c <= n)
    sx.assume(e < n)
    x = G.stub_array("x", (n,), (c,))
    kv = sx.conc(k)
    xp = _xp()
    if kv == 0:
        y = xp.expand_dims(x, axis=-1)
        B._declared_ok_(y, (n, 1))
        out = xp.squeeze(y, axis=-1)
    elif kv == 1:
        y = xp.expand_dims(x, axis=-2)
        B._declared_ok_(y, (1, n))
        out = xp.squeeze(y, axis=(0,))
    else:
        y = xp.expand_dims(xp.expand_dims(x, axis=0), axis=-1)
        B._declared_ok_(y, (1, n, 1))
        out = xp.squeeze(y, axis=(0, -1))
    B._declared_ok(out, (n,))
    t, _ = B._elem(out, (e,))
    B._expect(t, ("elem", "x", (e,)))


def sc_broadcast_arrays(n, m, c, c2, which, e, e2):
    B._start()
    sx.assume(c <= n)
    sx.assume(c2 <= m)
    sx.assume(e < n)
    sx.assume(e2 < m)
    x = G.stub_array("x", (n, 1), (c, 1))
    y = G.stub_array("y", (m,), (c2,))
    bx, by = _xp().broadcast_arrays(x, y)
    out = (bx, by)[sx.conc(which)]
    B._declared_ok(out, (n, m))
    t, _ = B._elem(out, (e, e2))
    w = sx.conc(which)
    sx.require(anp.term_mult(t, ("x", (e, 0))) == (1 if w == 0 else 0) and anp.term_mult(t, ("y", (e2,))) == (1 if w == 1 else 0), "wrong-broadcast-source", str(t)[:200])


def sc_matrix_transpose(n, m, c, c2, k, e, e2):
    B._start()
    sx.assume(c <= n)
    sx.assume(c2 <= m)
    sx.assume(e < m)
    sx.assume(e2 < n)
    x = G.stub_array("x", (n, m), (c, c2))
    kv = sx.conc(k)
    out = [lambda: _xp().matrix_transpose(x), lambda: x.T, lambda: x.mT][kv]()
    B._declared_ok(out, (m, n))
    t, _ = B._elem(out, (e, e2))
    B._expect(t, ("elem", "x", (e2, e)))


def sc_scalar_operand(n, c, k, e):
    """element-wise with a Python scalar on either side and with a 0-d array"""
    B._start()
    sx.assume(c <= n)
    sx.assume(e < n)
    x = G.stub_array("x", (n,), (c,))
    kv = sx.conc(k)
    if kv == 0:
        out = x - 2.0
    elif kv == 1:
        out = 2.0 - x
    else:
        z = G.stub_array("z", (), ())
        out = _xp().subtract(z, x)
    B._declared_ok(out, (n,))
    t, _ = B._elem(out, (e,))
    sx.require(t[0] == "fn" and t[1] == "subtract", "not-a-subtraction", str(t)[:200])
    pos = 0 if kv == 0 else 1
    sx.require(anp.terms_equal(t[2][pos], ("elem", "x", (e,))), "wrong-provenance", f"got {t}")
    if kv == 2:
        sx.require(anp.terms_equal(t[2][0], ("elem", "z", ())), "wrong-provenance", f"got {t}")


def sc_clip_arrays(n, c, c2, e):
    B._start()
    sx.assume(c <= n)
    sx.assume(c2 <= n)
    sx.assume(e < n)
    x = G.stub_array("x", (n,), (c,))
    lo = G.stub_array("lo", (n,), (c2,))
    hi = G.stub_array("hi", (n,), (c,))
    out = _xp().clip(x, lo, hi)
    B._declared_ok(out, (n,))
    t, _ = B._elem(out, (e,))
    for nm in ("x", "lo", "hi"):
        mlt = anp.term_mult(t, (nm, (e,)))
        sx.require(mlt >= 1, "clip-operand-missing", f"{nm}[{e}] does not reach out[{e}]: {t}")
    q = sx.conc(e)
    for nm in ("x", "lo", "hi"):
        for o in range(sx.conc(n)):
            if o != q:
                sx.require(anp.term_mult(t, (nm, (o,))) == 0, "clip-foreign-element", f"{nm}[{o}] reaches out[{q}]")


def sc_cumprod(n, c, e, j):
    B._start()
    sx.assume(c <= n)
    sx.assume(e < n)
    sx.assume(j < n)
    x = G.stub_array("x", (n,), (c,))
    out = _xp().cumulative_prod(x)
    B._declared_ok(out, (n,))
    t, _ = B._elem(out, (e,))
    mlt = anp.term_mult(t, ("x", (j,)))
    sx.require(mlt == sx.ite(j <= e, 1, 0), "wrong-prefix", f"x[{j}] contributes {mlt} times to out[{e}]")


def sc_diff_n(n, c, k, e):
    """diff of order 2, and diff with append / prepend of another cubed array"""
    B._start()
    sx.assume(c <= n)
    x = G.stub_array("x", (n,), (c,))
    kv = sx.conc(k)
    xp = _xp()
    if kv == 0:
        sx.assume(n >= 3)
        out = xp.diff(x, n=2)
        B._declared_ok(out, (n - 2,))
        sx.assume(e < n - 2)
        t, _ = B._elem(out, (e,))
        # out[e] = (x[e+2] - x[e+1]) - (x[e+1] - x[e])
        d = lambda i: ("fn", "subtract", (("elem", "x", (i + 1,)), ("elem", "x", (i,))))  # noqa: E731
        B._expect(t, ("fn", "subtract", (d(e + 1), d(e))))
    else:
        y = G.stub_array("y", (2,), (2,))
        out = xp.diff(x, append=y) if kv == 1 else xp.diff(x, prepend=y)
        B._declared_ok(out, (n + 1,))
        sx.assume(e < n + 1)
        t, _ = B._elem(out, (e,))

        def el(i):
            if kv == 1:
                return sx.ite_term(i < n, ("elem", "x", (i,)), ("elem", "y", (i - n,))) if hasattr(sx, "ite_term") else None
            return None

        ev, nv = sx.conc(e), sx.conc(n)

        def elc(i):
            if kv == 1:
                return ("elem", "x", (i,)) if i < nv else ("elem", "y", (i - nv,))
            return ("elem", "y", (i,)) if i < 2 else ("elem", "x", (i - 2,))

        B._expect(t, ("fn", "subtract", (elc(ev + 1), elc(ev))))


def sc_pad_symmetric(n, c, pl, pr, e):
    B._start()
    sx.assume(c <= n)
    sx.assume(pl <= n)
    sx.assume(pr <= n)
    x = G.stub_array("x", (n,), (c,))
    import cubed

    plv, prv = sx.conc(pl), sx.conc(pr)
    out = cubed.pad(x, ((plv, prv),), mode="symmetric")
    B._declared_ok(out, (n + plv + prv,))
    sx.assume(e < n + plv + prv)
    ev, nv = sx.conc(e), sx.conc(n)
    t, _ = B._elem(out, (ev,))
    if ev < plv:
        src = plv - 1 - ev
    elif ev < plv + nv:
        src = ev - plv
    else:
        src = nv - 1 - (ev - plv - nv)
    B._expect(t, ("elem", "x", (src,)))


def sc_tensordot_values(n, k, m, c, ck, cm, e0, e1, j, r):
    """tensordot(x, y, axes=1) with chunked contraction AND chunked free axes: out[e0, e1] = sum_j x[e0, j] y[j, e1]"""
    B._start()
    sx.assume(c <= n)
    sx.assume(ck <= k)
    sx.assume(cm <= m)
    sx.assume(e0 < n)
    sx.assume(e1 < m)
    sx.assume(j < k)
    x = G.stub_array("x", (n, k), (c, ck))
    y = G.stub_array("y", (k, m), (ck, cm))
    out = _xp().tensordot(x, y, axes=1)
    B._declared_ok(out, (n, m))
    e1v = sx.conc(e1)
    t, _ = B._elem(out, (e0, e1v))
    sx.assume(r < n)
    mx = anp.term_mult(t, ("x", (r, j)))
    sx.require(mx == sx.ite(r == e0, 1, 0), "tensordot-uses-the-wrong-row", f"x[{r},{j}] enters out[{e0},{e1v}] {mx} times")
    for r1 in range(sx.conc(m)):
        my = anp.term_mult(t, ("y", (j, r1)))
        sx.require(my == (1 if r1 == e1v else 0), "tensordot-uses-the-wrong-column", f"y[{j},{r1}] enters out[{e0},{e1v}] {my} times")


def sc_isin(n, m, c, c2, e):
    """isin(x, test): out[e] depends on x[e] and on every element of test (in one piece)"""
    B._start()
    sx.assume(c <= n)
    sx.assume(c2 <= m)
    sx.assume(e < n)
    x = G.stub_array("x", (n,), (c,), dtype="int64")
    y = G.stub_array("y", (m,), (c2,), dtype="int64")
    out = _xp().isin(x, y)
    B._declared_ok(out, (n,))
    if B.MODE == "route":
        raise B._Done()


def sc_searchsorted(n, m, c, c2, e):
    B._start()
    # searchsorted builds a NumPy array from x1's chunk sizes at build time (block offsets): x1's geometry is forked by value
    n, c = sx.conc(n), sx.conc(c)
    sx.assume(c <= n)
    sx.assume(c2 <= m)
    sx.assume(e < m)
    x = G.stub_array("x", (n,), (c,))
    y = G.stub_array("y", (m,), (c2,))
    out = _xp().searchsorted(x, y)
    B._declared_ok(out, (m,))
    if B.MODE == "route":
        raise B._Done()


def sc_full_leaf(n, c, k, e):
    """creation functions as leaves feeding an operation: ones/zeros/full/empty_like/asarray(numpy)"""
    B._start()
    sx.assume(c <= n)
    sx.assume(e < n)
    xp = _xp()
    kv = sx.conc(k)
    nv, cv = sx.conc(n), sx.conc(c)
    x = G.stub_array("x", (n,), (c,))
    if kv == 0:
        y = xp.ones((nv,), chunks=(cv,), spec=x.spec)
    elif kv == 1:
        y = xp.full((nv,), 7.0, chunks=(cv,), spec=x.spec)
    elif kv == 2:
        y = xp.zeros_like(x)
    else:
        y = xp.full_like(x, 3.0)
    B._declared_ok_(y, (n,))
    out = xp.subtract(x, y)
    B._declared_ok(out, (n,))
    t, _ = B._elem(out, (e,))
    sx.require(t[0] == "fn" and t[1] == "subtract" and anp.terms_equal(t[2][0], ("elem", "x", (e,))), "wrong-provenance", f"got {t}")
    sx.require(anp.term_mult(t[2][1], ("x", (e,))) == 0 and not anp.has_uninit(t[2][1]), "creation-leaf-not-a-constant", f"got {t}")


def _kind(fn, k):
    def h(**kw):
        return fn(kind=k, **kw)

    h.__name__ = f"{fn.__name__}_{k}"
    return h


def sc_map_blocks_broadcast(n, m, c, c2, first, e, e2):
    """map_blocks(f, a, b) over a (1, m) and an (n, m) array, the size-1 (broadcast) array first or second: NumPy broadcasting gives
    (n, m) and out[e, e2] = f(a[0, e2], b[e, e2])"""
    import cubed

    B._start()
    sx.assume(c <= n)
    sx.assume(c2 <= m)
    sx.assume(e < n)
    sx.assume(e2 < m)
    a = G.stub_array("a", (1, m), (1, c2))
    b = G.stub_array("b", (n, m), (c, c2))
    nxp = B.anp_ns()
    fv = sx.conc(first)
    args = (a, b) if fv == 0 else (b, a)
    out = cubed.map_blocks(lambda u, v: nxp.subtract(u, v), *args, dtype="float64")
    B._declared_ok(out, (n, m))
    t, _ = B._elem(out, (e, e2))
    ta, tb = ("elem", "a", (0, e2)), ("elem", "b", (e, e2))
    B._expect(t, ("fn", "subtract", (ta, tb) if fv == 0 else (tb, ta)))


def sc_reduction_premap(n, m, c, s, j, j2, e):
    """cubed.core.reduction with a user `func` that is a pre-processing MAP (square) and a reducing combine_func (sum-of-squares over axis
    0): every task must write a block of its chunk's extent whatever the number of blocks per group; out[e] collects column e once"""
    from cubed.core.ops import reduction

    B._start()
    sx.assume(c <= n)
    sx.assume(j < n)
    sx.assume(j2 < m)
    sx.assume(e < m)
    x = G.stub_array("x", (n, m), (c, m))
    nxp = B.anp_ns()

    def premap(a, axis=None, keepdims=None, **kw):
        return nxp.multiply(a, a)

    def comb(a, axis=None, keepdims=None, **kw):
        return nxp.sum(a, axis=axis, keepdims=keepdims)

    out = reduction(x, premap, combine_func=comb, axis=0, dtype="float64", split_every=s)
    B._declared_ok(out, (m,))
    t, _ = B._elem(out, (e,))
    mlt = anp.term_mult(t, ("x", (j, j2)))
    sx.require(mlt == sx.ite(j2 == e, 2, 0), "wrong-reduction-group", f"x[{j},{j2}] enters out[{e}] {mlt} times (expected twice: x*x)")


def sc_gather_many_blocks(c, k, e):
    """x[idx] with an integer-array index that takes ONE element from each of k blocks (k up to 6): one output chunk is assembled from
    many input blocks -- the selection's projection counts one extra input chunk however many blocks feed an output chunk"""
    import numpy as np

    B._start()
    cv, kv = sx.conc(c), sx.conc(k)
    sx.assume(kv <= cv)  # the k gathered elements form one output chunk
    n = cv * kv
    x = G.stub_array("x", (n,), (cv,))
    idx = np.asarray([j * cv for j in range(kv)])
    out = x[idx]
    B._declared_ok(out, (kv,))
    ev = sx.conc(e)
    sx.assume(ev < kv)
    t, _ = B._elem(out, (ev,))
    B._expect(t, ("elem", "x", (ev * cv,)))


def _D(N):
    """extent bound of the 2-d scenarios: 3 in the quick tier, 5 in the thorough tier"""
    return 3 if N <= 6 else 5


_IDX_KINDS = ("a:,::st", "...,a", "None,a:,:", "a::st,None,1:")

SCENARIOS = {
    "sum[2d,axes,keepdims]": (sc_sum_2d_axes, lambda N: [("n", 1, _D(N)), ("m", 1, _D(N)), ("c", 1, _D(N)), ("c2", 1, _D(N)), ("s", 2, 3), ("ax", 0, 5), ("kd", 0, 1), ("j", 0, _D(N) - 1), ("j2", 0, _D(N) - 1), ("e", 0, _D(N) - 1)]),
    "min[2d]": (_sc_reduce2("min"), lambda N: [("n", 1, _D(N)), ("m", 1, _D(N)), ("c", 1, _D(N)), ("c2", 1, _D(N)), ("s", 2, 3), ("ax", 0, 2), ("j", 0, _D(N) - 1), ("j2", 0, _D(N) - 1), ("e", 0, _D(N) - 1)]),
    "nansum": (sc_nansum, lambda N: [("n", 1, N), ("c", 1, N), ("s", 2, 3), ("j", 0, N)]),
    "nanmean[axis0-2d]": (sc_nanmean, lambda N: [("n", 1, N - 1), ("m", 1, 2), ("c", 1, N - 1), ("c2", 1, 2), ("s", 2, 3), ("j", 0, N - 1), ("j2", 0, 1), ("e", 0, 1)]),
    "apply_gufunc[core-dim]": (sc_gufunc_core, lambda N: [("n", 1, N), ("m", 1, 3), ("c", 1, N), ("e", 0, N), ("j", 0, N), ("j2", 0, 3)]),
    "apply_gufunc[two-args,broadcast]": (sc_gufunc_two, lambda N: [("n", 1, _D(N)), ("m", 1, N - 1), ("c", 1, _D(N)), ("c2", 1, N - 1), ("e", 0, _D(N)), ("e2", 0, N)]),
    "rechunk[2d,small-memory]": (sc_rechunk_2d, lambda N: (lambda D: [("n", 1, D), ("m", 1, D - 1), ("c", 1, D), ("c2", 1, D - 1), ("d", 1, D), ("d2", 1, D - 1), ("M", 0, 50 if D == 3 else 90), ("mn", 0, 4), ("irr", 0, 1), ("e", 0, D - 1), ("e2", 0, D - 2)])(3 if N <= 6 else 4)),
    "take[axis,2d]": (sc_take_axis, lambda N: [("n", 1, _D(N)), ("m", 1, 2), ("c", 1, _D(N)), ("c2", 1, 2), ("ax", 0, 1), ("i0", 0, 2), ("i1", 0, 2), ("e", 0, 2), ("p", 0, 1)]),
    **{f"index[2d,{nm}]": (_kind(sc_index_2d_mixed, k), lambda N: [("n", 1, _D(N)), ("m", 1, _D(N)), ("c", 1, _D(N)), ("c2", 1, _D(N)), ("a", 0, 2), ("st", 1, 2), ("e", 0, _D(N) - 1), ("e2", 0, _D(N) - 1)]) for k, nm in enumerate(_IDX_KINDS)},
    "expand_dims/squeeze[negative-axes]": (sc_squeeze_expand_neg, lambda N: [("n", 1, N), ("c", 1, N), ("k", 0, 2), ("e", 0, N)]),
    "broadcast_arrays": (sc_broadcast_arrays, lambda N: [("n", 1, _D(N)), ("m", 1, _D(N) + 1), ("c", 1, _D(N)), ("c2", 1, _D(N) + 1), ("which", 0, 1), ("e", 0, _D(N)), ("e2", 0, _D(N) + 1)]),
    "matrix_transpose/T/mT": (sc_matrix_transpose, lambda N: [("n", 1, _D(N)), ("m", 1, _D(N)), ("c", 1, _D(N)), ("c2", 1, _D(N)), ("k", 0, 2), ("e", 0, _D(N)), ("e2", 0, _D(N))]),
    "subtract[scalar/0-d operand]": (sc_scalar_operand, lambda N: [("n", 1, N), ("c", 1, N), ("k", 0, 2), ("e", 0, N)]),
    "clip[array-bounds]": (sc_clip_arrays, lambda N: [("n", 1, N - 1), ("c", 1, N - 1), ("c2", 1, N - 1), ("e", 0, N)]),
    "cumulative_prod": (sc_cumprod, lambda N: [("n", 1, N + 6), ("c", 1, N + 6), ("e", 0, N + 6), ("j", 0, N + 6)]),
    "diff[n=2/append/prepend]": (sc_diff_n, lambda N: [("n", 1, N), ("c", 1, N), ("k", 0, 2), ("e", 0, N + 1)]),
    "pad[symmetric]": (sc_pad_symmetric, lambda N: [("n", 1, N), ("c", 1, N), ("pl", 0, 2), ("pr", 0, 2), ("e", 0, N + 4)]),
    "tensordot[values]": (sc_tensordot_values, lambda N: [("n", 1, 2), ("k", 1, _D(N) + 1), ("m", 1, 2), ("c", 1, 2), ("ck", 1, _D(N) + 1), ("cm", 1, 2), ("e0", 0, 1), ("e1", 0, 1), ("j", 0, _D(N)), ("r", 0, 1)]),
    "map_blocks[broadcast,size-1-array]": (sc_map_blocks_broadcast, lambda N: [("n", 1, _D(N) + 1), ("m", 1, _D(N)), ("c", 1, _D(N) + 1), ("c2", 1, _D(N)), ("first", 0, 1), ("e", 0, _D(N)), ("e2", 0, _D(N) - 1)]),
    "reduction[user-func-is-a-map]": (sc_reduction_premap, lambda N: [("n", 1, N + 3), ("m", 1, 2), ("c", 1, N + 3), ("s", 2, 4), ("j", 0, N + 2), ("j2", 0, 1), ("e", 0, 1)]),
    "index[int-array,one-element-per-block]": (sc_gather_many_blocks, lambda N: [("c", 1, 6), ("k", 1, 6), ("e", 0, 5)]),
    "creation-leaves": (sc_full_leaf, lambda N: [("n", 1, N), ("c", 1, N), ("k", 0, 3), ("e", 0, N)]),
}
# only in the thorough tier (same construction path as min[2d] with another block function)
THOROUGH_ONLY = {f"{f}[2d]": (_sc_reduce2(f), lambda N: [("n", 1, 4), ("m", 1, 4), ("c", 1, 4), ("c2", 1, 4), ("s", 2, 3), ("ax", 0, 2), ("j", 0, 3), ("j2", 0, 3), ("e", 0, 3)]) for f in ("prod", "all")}
# scenarios that state shapes / block geometry only (the values depend on NumPy's arithmetic): used in "tasks" mode (C12/C17)
SHAPE_ONLY = {
    "isin": (sc_isin, lambda N: [("n", 1, N), ("m", 1, N), ("c", 1, N), ("c2", 1, N), ("e", 0, N)]),
    "searchsorted": (sc_searchsorted, lambda N: [("n", 1, 4), ("m", 1, 4), ("c", 1, 4), ("c2", 1, 4), ("e", 0, 0)]),
}
# not walked task by task under C12/C17 (rechunk geometry is C05/C14's subject and the walk does not fit the wall budget; two of the four
# indexing kinds suffice for the block-shape question)
ROUTE_ONLY = {"rechunk[2d,small-memory]", "index[2d,...,a]", "index[2d,None,a:,:]", "matrix_transpose/T/mT", "broadcast_arrays", "creation-leaves"}
