"""C02 -- graph optimization (operation fusion) never changes any computed value; requested arrays stay materialized.

Compositions of real operations are built through the real construction path on metadata arrays with symbolic geometry;
the real optimizers (multiple_inputs_optimize_dag with default / symbolic fan-in limits, simple_optimize_dag,
fuse_all_optimize_dag, fuse_only_optimize_dag) rewrite the real DAG; the original and the rewritten plan are both
evaluated on abstract blocks (real fused key functions, real fused block functions) for a symbolic output element, and
the provenance of that element must be identical.  Every requested array must still have a producing operation that
writes it, and the source_array_names of every operation must match its DAG predecessors.
"""
from __future__ import annotations

from engine import sx
from engine.obligation import Obl
from geom import backend as G
from harness import c01
from stubs import anp

EXPLANATION = (
    "bounded symbolic execution (sx/z3): real construction of operation compositions on symbolic geometry, real DAG rewrite by every "
    "optimizer, evaluation of the unoptimized and the optimized real plan on abstract blocks; the provenance term (or the multiplicity "
    "of every source element, for reductions) of a symbolic output element must coincide"
)
TRUSTED_BASE = c01.TRUSTED_BASE
ASSUMPTIONS = ["block functions are uninterpreted on values (anp); that the fused closure pickles and float reassociation (none happens) are outside"]
ALLOWED = c01.ALLOWED


def _xp():
    import cubed.array_api as xp

    return xp


def optimizers():
    import cubed.core.optimization as co

    return {
        "default": lambda dag, names, kw: co.multiple_inputs_optimize_dag(dag, array_names=names),
        "limits": lambda dag, names, kw: co.multiple_inputs_optimize_dag(
            dag, array_names=names, max_total_source_arrays=sx.conc(kw["msa"]),
            max_total_num_input_blocks=(None if sx.conc(kw["mib"]) == 0 else sx.conc(kw["mib"]))),
        "simple": lambda dag, names, kw: co.simple_optimize_dag(dag, array_names=names),
        "fuse-all": lambda dag, names, kw: co.fuse_all_optimize_dag(dag, array_names=names),
        "fuse-only-last": lambda dag, names, kw: co.fuse_only_optimize_dag(
            dag, array_names=names, only_fuse=[sorted(n for n in dag.nodes() if n.startswith("op-"))[-1]]),
    }


# ---------------------------------------------------------------------------------------------
# compositions: each returns (requested arrays, leaf names, index of a symbolic element per requested array)
# ---------------------------------------------------------------------------------------------
def comp_chain(n, c, **_):
    x = G.stub_array("x", (n,), (c,))
    xp = _xp()
    return [xp.exp(xp.abs(xp.negative(x)))], ["x"], [(n,)]


def comp_two_inputs(n, c, **_):
    x = G.stub_array("x", (n,), (c,))
    y = G.stub_array("y", (n,), (c,))
    xp = _xp()
    return [xp.subtract(xp.negative(x), xp.abs(y))], ["x", "y"], [(n,)]


def comp_diamond(n, c, **_):
    x = G.stub_array("x", (n,), (c,))
    xp = _xp()
    a = xp.negative(x)
    return [xp.subtract(xp.abs(a), xp.exp(a))], ["x"], [(n,)]


def comp_repeated(n, c, **_):
    x = G.stub_array("x", (n,), (c,))
    xp = _xp()
    a = xp.negative(x)
    return [xp.subtract(a, a)], ["x"], [(n,)]


def comp_repeated_sum(n, c, s, **_):
    """a REDUCTION result used for two arguments of one consumer: the fused consumer asks the same streaming predecessor twice"""
    x = G.stub_array("x", (n,), (c,))
    xp = _xp()
    t = xp.sum(x, split_every=sx.conc(s))
    return [xp.multiply(t, t)], ["x"], [()]


def comp_repeated_fused_sum(n, c, s, **_):
    x = G.stub_array("x", (n,), (c,))
    xp = _xp()
    t = xp.sum(xp.negative(x), split_every=sx.conc(s))
    return [xp.add(t, t)], ["x"], [()]


def comp_repeated_concat(n, c, **_):
    x = G.stub_array("x", (n,), (c,))
    y = G.stub_array("y", (n,), (c,))
    xp = _xp()
    k = xp.concat([xp.negative(x), y])
    return [xp.subtract(k, xp.abs(k)), ], ["x", "y"], [(2 * n,)]


def comp_repeated_concat_same(n, c, **_):
    x = G.stub_array("x", (n,), (c,))
    y = G.stub_array("y", (n,), (c,))
    xp = _xp()
    k = xp.concat([x, y])
    return [xp.add(k, k)], ["x", "y"], [(2 * n,)]


def comp_transpose_of_elemwise(n, c, c2, **_):
    """the consumer iterates over ANOTHER block grid than its producer (a (n, 3) array in chunks (c, c2) transposed): same number
    of tasks, different block coordinates"""
    c2_ = sx.conc(c2)
    x = G.stub_array("x", (n, 3), (c, c2_))
    xp = _xp()
    return [xp.permute_dims(xp.negative(x), (1, 0))], ["x"], [(3, n)]


def comp_expand_dims_of_elemwise(n, c, **_):
    x = G.stub_array("x", (n,), (c,))
    xp = _xp()
    return [xp.abs(xp.expand_dims(xp.negative(x), axis=0))], ["x"], [(1, n)]


def comp_sum_of_elemwise(n, c, s, **_):
    x = G.stub_array("x", (n,), (c,))
    xp = _xp()
    return [xp.sum(xp.negative(x), split_every=sx.conc(s))], ["x"], [()]


def comp_elemwise_of_sum(n, c, s, **_):
    x = G.stub_array("x", (n,), (c,))
    xp = _xp()
    return [xp.negative(xp.sum(x, split_every=sx.conc(s)))], ["x"], [()]


def comp_mean(n, c, s, **_):
    x = G.stub_array("x", (n,), (c,))
    xp = _xp()
    return [xp.mean(xp.abs(x), split_every=sx.conc(s))], ["x"], [()]


def comp_index_of_elemwise(n, c, a, st, **_):
    x = G.stub_array("x", (n,), (c,))
    xp = _xp()
    a_, st_ = sx.conc(a), sx.conc(st)
    out = xp.negative(x)[a_::st_]
    return [xp.abs(out)], ["x"], [out.shape]


def comp_concat_of_elemwise(n, c, **_):
    x = G.stub_array("x", (n,), (c,))
    y = G.stub_array("y", (n,), (c,))
    xp = _xp()
    return [xp.negative(xp.concat([xp.abs(x), xp.exp(y)]))], ["x", "y"], [(2 * n,)]


def comp_stack_of_elemwise(n, c, **_):
    x = G.stub_array("x", (n,), (c,))
    y = G.stub_array("y", (n,), (c,))
    xp = _xp()
    return [xp.negative(xp.stack([xp.abs(x), y]))], ["x", "y"], [(2, n)]


def comp_unstack_consumers(n, c, **_):
    m = G.stub_array("m", (2, n), (1, c))
    xp = _xp()
    u0, u1 = xp.unstack(xp.negative(m), axis=0)
    return [xp.subtract(xp.abs(u0), u1)], ["m"], [(n,)]


def comp_rechunked_input(n, c, c2, **_):
    x = G.stub_array("x", (n,), (c,))
    y = G.stub_array("y", (n,), (c2,))
    xp = _xp()
    return [xp.negative(xp.subtract(xp.abs(x), y))], ["x", "y"], [(n,)]


def comp_requested_intermediate(n, c, **_):
    x = G.stub_array("x", (n,), (c,))
    xp = _xp()
    a = xp.negative(x)
    b = xp.abs(a)
    c_ = xp.exp(b)
    return [c_, b], ["x"], [(n,), (n,)]


def comp_shared_intermediate(n, c, **_):
    x = G.stub_array("x", (n,), (c,))
    xp = _xp()
    a = xp.negative(x)
    return [xp.abs(a), xp.exp(a)], ["x"], [(n,), (n,)]


def comp_repeat_flip(n, c, r, **_):
    x = G.stub_array("x", (n,), (c,))
    xp = _xp()
    r_ = sx.conc(r)
    return [xp.abs(xp.repeat(xp.negative(x), r_))], ["x"], [(n * r_,)]


COMPOSITIONS = {
    "chain": (comp_chain, ["n", "c"]),
    "two-inputs": (comp_two_inputs, ["n", "c"]),
    "diamond": (comp_diamond, ["n", "c"]),
    "repeated-arg": (comp_repeated, ["n", "c"]),
    "repeated-arg(sum)": (comp_repeated_sum, ["n", "c", "s"]),
    "repeated-arg(sum(elemwise))": (comp_repeated_fused_sum, ["n", "c", "s"]),
    "diamond(concat)": (comp_repeated_concat, ["n", "c"]),
    "repeated-arg(concat)": (comp_repeated_concat_same, ["n", "c"]),
    "transpose(elemwise)": (comp_transpose_of_elemwise, ["n", "c", "c2"]),
    "elemwise(expand_dims(elemwise))": (comp_expand_dims_of_elemwise, ["n", "c"]),
    "sum(elemwise)": (comp_sum_of_elemwise, ["n", "c", "s"]),
    "elemwise(sum)": (comp_elemwise_of_sum, ["n", "c", "s"]),
    "mean(elemwise)": (comp_mean, ["n", "c", "s"]),
    "elemwise(index(elemwise))": (comp_index_of_elemwise, ["n", "c", "a", "st"]),
    "elemwise(concat(elemwise))": (comp_concat_of_elemwise, ["n", "c"]),
    "elemwise(stack(elemwise))": (comp_stack_of_elemwise, ["n", "c"]),
    "unstack-consumers": (comp_unstack_consumers, ["n", "c"]),
    "rechunked-input": (comp_rechunked_input, ["n", "c", "c2"]),
    "requested-intermediate": (comp_requested_intermediate, ["n", "c"]),
    "shared-intermediate": (comp_shared_intermediate, ["n", "c"]),
    "elemwise(repeat(elemwise))": (comp_repeat_flip, ["n", "c", "r"]),
}


def has_ref(t):
    if isinstance(t, anp._Ref):
        return True
    if isinstance(t, tuple):
        return any(has_ref(x) for x in t)
    return False


def same_value(t0, t1, leaves, j, shapes):
    """terms without reductions: structural equality; with reductions: equal multiplicity of every source element"""
    if not has_ref(t0) and not has_ref(t1):
        return anp.terms_equal(t0, t1)
    conj = []
    for lf in leaves:
        nd = shapes[lf]
        q = (lf, tuple(j[:nd]))
        conj.append(anp.term_mult(t0, q) == anp.term_mult(t1, q))
    return sx.sand(*conj)


def make(comp, optimizer, twin=False):
    builder, _ = COMPOSITIONS[comp]

    def h(**kw):
        import networkx as nx

        G.reset_names()
        for k in ("c", "c2"):
            if k in kw:
                sx.assume(kw[k] <= kw["n"])
        outs, leaves, shapes = builder(**kw)
        names = tuple(o.name for o in outs)
        dag0 = nx.compose_all([o._plan.dag for o in outs])
        dag1 = optimizers()[optimizer](dag0, names, kw)
        ev0 = G.Evaluator(dag0)
        ev1 = G.Evaluator(dag1)
        leaves = [lf for lf in leaves if lf in dag0]  # e.g. an empty selection does not depend on its source any more
        leafshapes = {lf: len(dag0.nodes[lf]["target"].shape) for lf in leaves}
        # every requested array is still produced (materialized) by some operation of the optimized plan
        for nm in names:
            sx.require(nm in dag1 and nm in ev1.producer, "requested-array-no-longer-materialized", nm)
        # DAG consistency: the source arrays an op declares are exactly its DAG predecessors
        for opname, op in G.all_ops(dag1):
            preds = sorted(set(dag1.predecessors(opname)) - {"arrays"})
            decl = sorted(set(op.source_array_names))
            sx.require(preds == decl, "source_array_names-differ-from-dag-predecessors", f"{opname}: {decl} vs {preds}")
            for a in decl:
                sx.require(a in op.pipeline.config.reads_map, "fused-op-cannot-read-a-declared-source", f"{opname}: {a}")
        removed_ops = [n for n, d in dag0.nodes(data=True) if "primitive_op" in d and n not in dag1]
        sx.note(("fused-away", removed_ops))
        e = [kw["e0"], kw["e1"]]
        j = [kw["j0"], kw["j1"]]
        for o, shp in zip(outs, shapes):
            idx = []
            for d, ext in enumerate(shp):
                sx.assume(e[d] < ext) if d == 0 else sx.assume(e[d] < ext)
                idx.append(e[d])
            t0 = ev0.elem_of(o.name, tuple(idx))
            try:
                t1 = ev1.elem_of(o.name, tuple(idx))
            except Exception as ex:  # noqa: BLE001 - the unoptimized plan just produced this element: the optimized plan must, too
                raise sx.Violated("optimized-plan-fails-where-the-unoptimized-plan-succeeds", f"{o.name}{tuple(idx)}: {type(ex).__name__}: {str(ex)[:200]}") from ex
            sx.require(not anp.has_uninit(t0), "element-never-written-unoptimized")
            sx.require(not anp.has_uninit(t1), "element-never-written-after-optimization")
            sx.require(same_value(t0, t1, leaves, j, leafshapes), "optimization-changed-a-value", f"{o.name}{tuple(idx)}: {t0} vs {t1}")
        if twin and removed_ops:
            raise sx.Violated("reached-end-with-fused-ops")

    return h


def obligations(tier):
    import cubed.core.optimization as co
    import cubed.core.plan as cp
    import cubed.primitive.blockwise as pb

    fns = [co.multiple_inputs_optimize_dag, co.fuse_predecessors, co.can_fuse_predecessors, co.predecessor_ops_and_arrays, co.predecessor_ops, co.num_source_arrays,
           co.simple_optimize_dag, co.fuse_all_optimize_dag, co.fuse_only_optimize_dag, pb.fuse, pb.fuse_multiple, pb.fuse_blockwise_specs,
           pb.make_fused_back_key_function, pb.make_fused_function, pb.apply_blockwise_key_func, pb.apply_blockwise_func, pb.can_fuse_multiple_primitive_ops,
           pb.can_fuse_primitive_ops, pb.is_fuse_candidate, cp.Plan.optimize] + c01._functions()
    N = 5 if tier == "quick" else 8
    wall = 600 if tier == "quick" else 3000
    doms = {"n": (1, N), "c": (1, N), "c2": (1, N if True else 3), "s": (2, 3), "a": (0, 2), "st": (1, 2), "r": (1, 2)}
    E = [("e0", 0, 2 * N), ("e1", 0, N), ("j0", 0, N), ("j1", 0, N)]
    o = []
    if tier == "quick":
        plan = [(c, "default") for c in COMPOSITIONS] + [("diamond", "simple"), ("chain", "simple"), ("chain", "fuse-all"), ("sum(elemwise)", "fuse-all"),
                                                         ("two-inputs", "limits"), ("diamond", "limits"), ("transpose(elemwise)", "simple"), ("elemwise(expand_dims(elemwise))", "simple"),
                                                         ("transpose(elemwise)", "fuse-all"), ("sum(elemwise)", "simple"), ("requested-intermediate", "fuse-all"), ("chain", "fuse-only-last")]
    else:
        plan = [(c, z) for c in COMPOSITIONS for z in ("default", "simple", "fuse-all", "limits", "fuse-only-last")]
    for comp, optz in plan:
        _, vs = COMPOSITIONS[comp]
        V = [(v, *doms[v]) for v in vs] + E + ([("msa", 0, 5), ("mib", 0, 6)] if optz == "limits" else [])
        o.append(Obl(f"same-values[{comp},{optz}]", make(comp, optz), V, allowed=ALLOWED, setup=c01.setup, functions=fns, wall_s=wall,
                     bounds=f"composition '{comp}' with length/chunks <= {N}, optimizer {optz}" + (" with max_total_source_arrays 0..5 and max_total_num_input_blocks None/1..6" if optz == "limits" else "") + "; every element of every requested array",
                     outside="compositions beyond the catalogue; >2 dims; store targets (C11)", stubs=["anp", "indexer_model", "geom"],
                     witness_rule=lambda m: m.get("n", 0) >= 2))
    o.append(Obl("twin:same-values[diamond,default]", make("diamond", "default", twin=True), [("n", 1, N), ("c", 1, N)] + E, allowed=ALLOWED, setup=c01.setup,
                 twin_of="same-values[diamond,default]", wall_s=wall))
    return o
