"""C13 -- plan task counts match execution; callbacks see each event exactly once, in order.

(a) counts: for every operation of the real plans built by the real construction path (catalogue operations, rechunks,
    stores into existing/sharded targets, region stores, multi-output ops, fused ops after the real optimizer, the
    create-arrays operation added at finalization) num_tasks equals the length of the operation's task iterable, tasks are
    pairwise distinct, and the finalized plan's total equals the sum -- for symbolic geometry.
(b) events: the real async_map_dag / SingleThreadedExecutor.execute_dag (recompiled with the sched shims, see C07) deliver
    per operation one start, num_tasks task-ends and one end, in that order, for every schedule within the bound.
"""
from __future__ import annotations

from engine import sx
from engine.obligation import Obl
from geom import backend as G
from harness import c01
from harness import storegeom as SG

EXPLANATION = (
    "bounded symbolic execution (sx/z3): (a) real construction + real finalization (+ real optimizer) on symbolic geometry, "
    "num_tasks vs the task iterable of every operation; (b) real executor loops on the sched stubs with symbolic completion "
    "orders, event trace vs the callback contract"
)
TRUSTED_BASE = c01.TRUSTED_BASE + ["stubs/sched.py"]
ASSUMPTIONS = []


def _finalized_counts(out, optimize):
    try:
        _finalized_counts_(out, optimize)
    except SG.ALLOWED as ex:
        raise sx.Violated(f"finalization-failed:{type(ex).__name__}", str(ex)[:300]) from ex


def _finalized_counts_(out, optimize):
    from cubed.core.plan import arrays_to_plan

    outs = out if isinstance(out, (tuple, list)) else (out,)
    plan = arrays_to_plan(*outs)
    fp = plan._finalize(optimize_graph=bool(optimize))
    total = SG.counts_lemma(fp.dag)
    sx.require(fp.num_tasks == total, "plan-total-differs-from-sum-of-ops", f"{fp.num_tasks} vs {total}")
    # the create-arrays op creates exactly the lazy arrays of the plan, once each
    from cubed.storage.zarr import LazyZarrArray

    lazy = [d["target"] for n, d in fp.dag.nodes(data=True) if isinstance(d.get("target"), LazyZarrArray)]
    if lazy:
        ca = fp.dag.nodes["create-arrays"]["primitive_op"]
        sx.require(ca.num_tasks == len(lazy), "create-arrays-count", f"{ca.num_tasks} vs {len(lazy)}")
        sx.require(len({id(a) for a in ca.pipeline.mappable}) == len(lazy), "create-arrays-duplicates")


def _mk(builder, keys):
    def h(**kw):
        out, info = builder(**{k: kw[k] for k in keys})
        _finalized_counts(out, kw.get("opt", 0))

    return h


def _catalogue(name):
    fn, _ = c01.SCENARIOS[name] if name in c01.SCENARIOS else c01.EXTRA_SCENARIOS[name]

    def h(**kw):
        opt = kw.pop("opt")
        captured = {}
        orig = c01._declared_ok

        def hook(out, shape):
            captured["out"] = out
            raise c01._Done()

        c01._declared_ok = hook
        c01.MODE = "route"
        try:
            try:
                fn(**kw)
            except c01._Done:
                pass
        finally:
            c01._declared_ok = orig
        out = captured.get("out")
        if out is None:
            return
        _finalized_counts(out, opt)

    return h


def obligations(tier):
    import cubed.core.ops as ops
    import cubed.core.plan as cp
    import cubed.primitive.blockwise as pb

    N = 7 if tier == "quick" else 12
    wall = 600 if tier == "quick" else 3000
    fns = [pb.general_blockwise, pb.ChunkKeys, pb.fuse, pb.fuse_multiple, ops._store_array, cp.create_zarr_arrays, cp.Plan._create_lazy_zarr_arrays,
           cp.FinalizedPlan._calculate_stats, cp.Plan._finalize]
    common = dict(allowed=SG.ALLOWED, setup=SG.setup, functions=fns, wall_s=wall, stubs=["geom", "indexer_model"],
                  outside=">2 dims; executors other than the local ones")
    OPT = [("opt", 0, 1)]
    o = []
    o.append(Obl("counts[rechunk]", _mk(lambda n, c, c2, M: SG.b_rechunk_1d(n, c, c2, M, 1), ["n", "c", "c2", "M"]),
                 [("n", 1, N), ("c", 1, N), ("c2", 1, N), ("M", 0, 8 * N * 5 + 40)] + OPT, bounds=f"n, chunks <= {N}, optimize on/off", **common))
    o.append(Obl("counts[store-existing-target]", _mk(lambda n, c, tc: SG.b_store_whole(n, c, tc, 1), ["n", "c", "tc"]),
                 [("n", 1, N), ("c", 1, N), ("tc", 1, N)] + OPT, bounds=f"n, chunks <= {N}", **common))
    R = 5 if tier == "quick" else 9
    o.append(Obl("counts[store-region]", _mk(SG.b_store_region, ["n", "c", "tn", "tc", "a"]),
                 [("n", 1, R), ("c", 1, R), ("tn", 1, R + 3), ("tc", 1, R), ("a", 0, R)] + OPT, bounds=f"source <= {R}, target <= {R+3}", **common))
    o.append(Obl("counts[to_zarr-path]", _mk(SG.b_store_path, ["n", "c"]), [("n", 1, N), ("c", 1, N)] + OPT, bounds=f"n <= {N}", **common))
    o.append(Obl("counts[store-sharded]", _mk(SG.b_store_sharded, ["n", "c", "sh"]), [("n", 1, N), ("c", 1, N), ("sh", 1, N)] + OPT, bounds=f"n <= {N}", **common))
    for name in ("sum", "mean", "concat", "index[slice]", "subtract[different-chunks]", "unstack", "repeat", "stack", "roll", "linalg.qr"):
        _, vs = c01.SCENARIOS[name] if name in c01.SCENARIOS else c01.EXTRA_SCENARIOS[name]
        o.append(Obl(f"counts[{name}]", _catalogue(name), vs(6) + OPT, bounds="as C01, optimize on/off (real multiple_inputs_optimize_dag)", **common))

    # (b) events: the real async_map_dag / SingleThreadedExecutor loops on the scheduler stubs (harness shared with C07)
    from harness import c07

    ev = [("multi-output", 1, False, 2, False, 30, 50, 8, 3), ("diamond", 1, True, None, False, 30, 40, 10, 3), ("rechunk-then-add", 0, True, None, False, 30, 40, 12, 3),
          ("chain-unequal", 0, False, 1, True, 30, 70, 10, 1)]
    if tier != "quick":
        ev += [("diamond", 0, True, None, False, 30, 40, 12, 1), ("independent", 0, True, 1, False, 30, 50, 12, 3), ("multi-output", 0, True, None, False, 30, 40, 12, 1)]
    for dn, opt, par, bs, ub, n_o, n_d, n_p, mr in ev:
        o.append(Obl(f"events[{dn},optimize={opt},parallel={int(par)},batch={bs},backups={int(ub)}]", c07.make(dn, opt, par, bs, ub, n_o, n_d, n_p, max_running=mr),
                     c07.vars_(n_o, n_d, n_p), setup=c07.setup, wall_s=wall, functions=fns,
                     bounds=f"real finalized plan '{dn}', every schedule with <= {mr} 'still running' observations; per operation exactly one start, num_tasks task-ends, one end, in order",
                     stubs=["sched"], outside="real event loop / pools", witness_rule=lambda m: True))
    for dn in ("diamond", "multi-output"):
        o.append(Obl(f"events[single-threaded,{dn}]", (lambda dn: lambda **kw: c07.single_threaded(dn, 0, **kw))(dn), [(f"s{k}", 0, 1) for k in range(8)],
                     setup=c07.setup, wall_s=wall, functions=fns, bounds="SingleThreadedExecutor.execute_dag on the real plan, every subset of operations marked computed"))

    def twin(**kw):
        _mk(SG.b_store_region, ["n", "c", "tn", "tc", "a"])(**kw)
        raise sx.Violated("reached-end")

    o.append(Obl("twin:counts[store-region]", twin, [("n", 1, R), ("c", 1, R), ("tn", 1, R + 3), ("tc", 1, R), ("a", 0, R)] + OPT, allowed=SG.ALLOWED, setup=SG.setup, twin_of="counts[store-region]", wall_s=wall))
    return o
