"""C15 -- blockwise block addressing follows the index expression, before and after fusion.

(a) index-notation compiler: make_blockwise_back_key_function(_flattened) + vendored dask
    _get_coord_mapping/_make_dims/broadcast_dimensions/lol_product, for symbolic index patterns,
    block counts, broadcast flags, new axes and output coordinate, against the reference index algebra.
(b) fusion: real fuse / fuse_multiple-level fuse_blockwise_specs / make_fused_back_key_function /
    make_fused_function / apply_blockwise_key_func / apply_blockwise_func / map_nested, on key functions
    taken from the real operations (closures re-instantiated from current code objects) and from the
    index-notation compiler; block functions are uninterpreted constructors; provenance terms of fused and
    unfused evaluation must be equal for a symbolic output coordinate and geometry.
"""
from __future__ import annotations

import inspect
from collections.abc import Iterator

from engine import loader, sx
from engine.obligation import Obl

EXPLANATION = (
    "bounded symbolic execution (sx/z3) of the real key-function compiler and of the real fusion code: index patterns, "
    "block counts, broadcast flags, new axes, fan-ins and output coordinates are solver variables; the keys / provenance "
    "terms are compared with a reference index algebra (a) and with the unfused evaluation (b) on every path"
)
TRUSTED_BASE = ["reference index algebra in harness/c15.py (written from the property statement / dask blockwise docs)"]
ASSUMPTIONS = ["block functions are uninterpreted constructors (what NumPy computes on a block is outside)"]


# ---------------------------------------------------------------------------------------------
# (a) index notation
# ---------------------------------------------------------------------------------------------
def _f(*a, **k):
    return None


def pattern_harness(A, MAXD, S, **kw):
    """A args, each with 0..MAXD dims; symbols 0..S-1; out 0..MAXD dims"""
    from cubed.primitive.blockwise import ChunkKey, FunctionArgs, make_blockwise_back_key_function_flattened

    # ---- the pattern (concretised through solver-enumerated value forks) ----
    arg_inds = []
    for a in range(A):
        nd = sx.conc(kw[f"nd{a}"])
        ind = []
        for p in range(nd):
            s = sx.conc(kw[f"s{a}_{p}"])
            sx.assume(s not in ind)
            ind.append(s)
        arg_inds.append(tuple(ind))
    # unused symbol variables are pinned to 0 so that they do not multiply paths
    for a in range(A):
        for p in range(len(arg_inds[a]), MAXD):
            sx.assume(kw[f"s{a}_{p}"] == 0)
            sx.assume(kw[f"bc{a}_{p}"] == 0)
    ndo = sx.conc(kw["ndo"])
    out_ind = []
    for p in range(ndo):
        s = sx.conc(kw[f"t{p}"])
        sx.assume(s not in out_ind)
        out_ind.append(s)
    for p in range(ndo, MAXD):
        sx.assume(kw[f"t{p}"] == 0)
        sx.assume(kw[f"c{p}"] == 0)
    out_ind = tuple(out_ind)
    in_syms = {s for ind in arg_inds for s in ind}
    new_syms = [s for s in out_ind if s not in in_syms]
    # block counts
    d = {}
    for s in range(S):
        if s in in_syms:
            d[s] = kw[f"d{s}"]
        elif s in new_syms:
            d[s] = kw[f"d{s}"]
            sx.assume(d[s] <= 2)
        else:
            sx.assume(kw[f"d{s}"] == 1)
    # the SAME array may stand at several argument positions with different index tuples (matmul(a, a), outer(v, v)): `same` makes
    # argument 1 the array of argument 0 (one name, one numblocks entry, so the two must agree in rank and block counts)
    same = A >= 2 and sx.conc(kw.get("same", 0)) == 1
    names = [f"a{a}" for a in range(A)]
    if same:
        names[1] = "a0"
        sx.assume(len(arg_inds[1]) == len(arg_inds[0]))
    numblocks = {}
    nb_concrete_one = {}
    for a in range(A):
        nbs = []
        for p, s in enumerate(arg_inds[a]):
            bc = kw[f"bc{a}_{p}"]
            if bc == 1:
                sx.assume(d[s] > 1)  # canonical: a broadcast flag only means something if others have >1 block
                nbs.append(1)
            else:
                nbs.append(d[s])
        if same and a == 1:
            for x_, y_ in zip(nbs, numblocks["a0"]):
                sx.assume(x_ == y_)
        numblocks[f"a{a}"] = tuple(nbs)
    # effective number of output blocks per symbol: the largest count over the arguments
    eff = {}
    for s in in_syms:
        e = 1
        for a in range(A):
            for p, s2 in enumerate(arg_inds[a]):
                if s2 == s:
                    nb = numblocks[f"a{a}"][p]
                    e = sx.ite(nb > e, nb, e) if isinstance(nb, sx.SInt) or isinstance(e, sx.SInt) else max(nb, e)
        eff[s] = e
    new_axes = {}
    for s in new_syms:
        k = sx.conc(d[s])
        new_axes[s] = (1,) * k  # chunks tuple of that many blocks
        eff[s] = k
    coords = []
    for p, s in enumerate(out_ind):
        c = kw[f"c{p}"]
        sx.assume(c < eff[s])
        coords.append(c)
    coords = tuple(coords)

    # ---- reference: does the pattern contract an axis that has more than one block? ----
    must_refuse = False
    for a in range(A):
        for p, s in enumerate(arg_inds[a]):
            if s not in out_ind:
                nb = numblocks[f"a{a}"][p]
                if nb > 1:
                    must_refuse = True
    argpairs = []
    for a in range(A):
        argpairs.extend((names[a], arg_inds[a]))
    if same:
        numblocks = {k: v for k, v in numblocks.items() if k != "a1"}
    sx.note(("pattern", arg_inds, "->", out_ind, "numblocks", numblocks, "new_axes", new_axes, "coords", coords))
    try:
        kf = make_blockwise_back_key_function_flattened(_f, "out", out_ind, *argpairs, numblocks=numblocks, new_axes=new_axes)
    except ValueError as ex:
        if "multiple chunks in dropped axis" in str(ex):
            sx.require(must_refuse, "refused-a-supported-pattern", str(ex))
            return
        raise
    sx.require(not must_refuse, "accepted-contraction-over-several-blocks")
    fa = kf(ChunkKey("out", coords))
    sx.require(isinstance(fa, FunctionArgs), "not-FunctionArgs")
    sx.require(fa.output_name == "out", "wrong-output-name")
    sx.require(len(fa.args) == A, "wrong-number-of-arguments", f"{fa.args}")
    for a in range(A):
        k = fa.args[a]
        sx.require(isinstance(k, ChunkKey), "argument-not-a-ChunkKey", f"arg {a}")
        sx.require(isinstance(k.name, str) and k.name == names[a], "wrong-array-or-argument-position", f"arg {a}: name={k.name!r}")
        sx.require(isinstance(k.coords, tuple) and len(k.coords) == len(arg_inds[a]), "wrong-coordinate-arity", f"arg {a}: coords={k.coords!r}")
        for p, s in enumerate(arg_inds[a]):
            nb = numblocks[names[a]][p]
            if s in out_ind:
                want = sx.ite(nb == 1, 0, coords[out_ind.index(s)]) if isinstance(nb, sx.SInt) else (0 if nb == 1 else coords[out_ind.index(s)])
            else:
                want = 0
            sx.require(k.coords[p] == want, "wrong-block-coordinate", f"arg {a} pos {p}: got {k.coords[p]} want {want}")
            sx.require(sx.sand(k.coords[p] >= 0, k.coords[p] < nb), "block-coordinate-out-of-range", f"arg {a} pos {p}")


def pattern_vars(A, MAXD, S):
    v = []
    for a in range(A):
        v.append((f"nd{a}", 0, MAXD))
        for p in range(MAXD):
            v.append((f"s{a}_{p}", 0, S - 1))
            v.append((f"bc{a}_{p}", 0, 1))
    v.append(("ndo", 0, MAXD))
    for p in range(MAXD):
        v.append((f"t{p}", 0, S - 1))
        v.append((f"c{p}", 0, 2))
    for s in range(S):
        v.append((f"d{s}", 1, 3))
    if A >= 2:
        v.append(("same", 0, 1))
    return v


def make_pattern(A, MAXD, S, fix=None):
    def h(**kw):
        if fix:
            for k, val in fix.items():
                sx.assume(kw[k] == val)
        pattern_harness(A, MAXD, S, **kw)

    return h


def make_pattern_twin(A, MAXD, S):
    def h(**kw):
        pattern_harness(A, MAXD, S, **kw)
        if sx.conc(kw["ndo"]) >= 1 and sx.conc(kw["nd0"]) >= 1:
            raise sx.Violated("reached-end-with-nontrivial-pattern")

    return h


# ---------------------------------------------------------------------------------------------
# (b) fusion on provenance terms
# ---------------------------------------------------------------------------------------------
class NB:
    """stands for an array in key-function closures: a name and block counts"""

    def __init__(self, name, numblocks):
        self.name = name
        self.numblocks = tuple(numblocks)
        self.ndim = len(self.numblocks)


def term(x):
    """canonical provenance term; consumes iterators, keeps the list/iterator distinction"""
    if isinstance(x, list):
        return ("list",) + tuple(term(i) for i in x)
    if isinstance(x, Iterator):
        return ("iter",) + tuple(term(i) for i in x)
    return x


def ufunc(name, multi=0):
    """uninterpreted block function; multi>0: generator yielding that many outputs"""
    if multi:

        def g(*args):
            t = tuple(term(a) for a in args)
            for j in range(multi):
                yield ("F", name, j, t)

        g.__name__ = name
        return g

    def f(*args):
        return ("F", name, tuple(term(a) for a in args))

    f.__name__ = name
    return f


def terms_equal(a, b):
    """structural equality of provenance terms with symbolic ints inside (no forks: one conjunction)"""
    conj = []

    def walk(x, y):
        if isinstance(x, tuple) and isinstance(y, tuple):
            if len(x) != len(y):
                return False
            return all(walk(i, j) for i, j in zip(x, y))
        if isinstance(x, (int, sx.SInt)) and isinstance(y, (int, sx.SInt)) and not isinstance(x, bool):
            conj.append(x == y)
            return True
        return x == y

    if not walk(a, b):
        return False
    return sx.sand(*conj) if conj else True


class SpecBox:
    """a node of a fusion tree: a real BlockwiseSpec plus how to evaluate it unfused"""

    def __init__(self, out_names, spec, preds=()):
        self.out_names = list(out_names)
        self.spec = spec
        self.preds = list(preds)  # SpecBox producing some of its inputs


def mk_spec(key_function, function, out_names, num_input_blocks=(1,), nout_blocks=1):
    from cubed.primitive.blockwise import BlockwiseSpec

    return BlockwiseSpec(
        key_function, function, tuple(num_input_blocks), (nout_blocks,) * len(out_names), {}, {n: None for n in out_names}
    )


def eval_unfused(box, out_coords, which=0):
    """value (term) of output `which` of box at out_coords, computing predecessors recursively"""
    from cubed.primitive.blockwise import ChunkKey, map_nested

    producers = {}
    for p in box.preds:
        for j, n in enumerate(p.out_names):
            producers[n] = (p, j)

    def read(key):
        if key.name in producers:
            p, j = producers[key.name]
            return eval_unfused(p, key.coords, j)
        return ("blk", key.name, tuple(key.coords))

    fa = box.spec.back_key_function(ChunkKey(box.out_names[0], tuple(out_coords)))
    args = map_nested(read, fa)
    res = box.spec.function(*args.args)
    if inspect.isgeneratorfunction(box.spec.function):
        res = tuple(res)
        return term(res[which])
    return term(res)


def eval_fused(spec, out_name, out_coords, which=0, leaf_names=()):
    from cubed.primitive.blockwise import ChunkKey, map_nested

    def read(key):
        sx.require(key.name in leaf_names, "fused-key-function-reads-an-array-that-was-fused-away", str(key))
        return ("blk", key.name, tuple(key.coords))

    fa = spec.back_key_function(ChunkKey(out_name, tuple(out_coords)))
    args = map_nested(read, fa)
    res = spec.function(*args.args)
    if inspect.isgeneratorfunction(spec.function):
        res = tuple(res)
        return term(res[which])
    return term(res)


def fuse_tree(box):
    """fuse bottom-up with the real fuse_blockwise_specs, like the optimizer does in topological order"""
    from cubed.primitive.blockwise import BlockwiseSpec, FunctionArgs, fuse_blockwise_specs

    if not box.preds:
        return box.spec
    if getattr(box, "pairfuse", False):
        # this node and its single predecessor are collapsed by the legacy two-op fuse() (what simple_optimize_dag does); the result
        # can then itself be a predecessor in a multiple-input fusion (a custom optimize_function composing both public passes)
        from cubed.primitive.blockwise import fuse
        from cubed.primitive.types import PrimitiveOperation
        from cubed.runtime.types import CubedPipeline

        def op(spec):
            return PrimitiveOperation(pipeline=CubedPipeline(None, "x", None, spec), source_array_names=[], target_array=None, projected_mem=1, allowed_mem=1000,
                                      reserved_mem=0, num_tasks=1)

        (pred,) = box.preds
        return fuse(op(fuse_tree(pred)), op(box.spec)).pipeline.config
    fused_preds = {}
    for p in box.preds:
        fs = fuse_tree(p)
        for n in p.out_names:
            fused_preds[n] = fs
    # one predecessor spec per *input argument position* of box.spec; None -> null spec (as fuse_multiple does)
    null_spec = BlockwiseSpec(
        back_key_function=lambda x: FunctionArgs(x, output_name=x.name),
        function=lambda x: x,
        num_input_blocks=(1,),
        num_output_blocks=(1,),
        reads_map={},
        writes_map={},
    )
    pred_specs = []
    for n in box.arg_names:
        pred_specs.append(fused_preds.get(n, null_spec))
    return fuse_blockwise_specs(box.spec, *pred_specs)


# ---- key-function shapes taken from the real operations ----
def kf_elemwise(out_name, names, numblocks_list, nd):
    """index-notation compiler, elementwise over nd dims with broadcasting"""
    from cubed.primitive.blockwise import make_blockwise_back_key_function_flattened

    ind = tuple(range(nd))[::-1]
    pairs = []
    nbs = {}
    for n, nb in zip(names, numblocks_list):
        pairs.extend((n, ind[len(ind) - len(nb):]))
        nbs[n] = tuple(nb)
    return make_blockwise_back_key_function_flattened(_f, out_name, ind, *pairs, numblocks=nbs)


def kf_transpose(out_name, name, nb):
    from cubed.primitive.blockwise import make_blockwise_back_key_function_flattened

    return make_blockwise_back_key_function_flattened(_f, out_name, (1, 0), name, (0, 1), numblocks={name: tuple(nb)})


def kf_partial_reduce(x, split):
    import cubed.core.ops as ops

    return loader.closure(ops.partial_reduce, "back_key_function", {"split_every": {0: split}, "x": x})


def kf_stack(names, axis=0):
    import cubed.array_api.manipulation_functions as mf

    return loader.closure(mf.stack, "back_key_function", {"array_names": list(names), "axis": axis})


def kf_repeat(x, repeats, axis=0):
    import cubed.array_api.manipulation_functions as mf

    return loader.closure(mf.repeat, "back_key_function", {"x": x, "repeats": repeats, "axis": axis})


def kf_unstack(x, axis=0):
    import cubed.array_api.manipulation_functions as mf

    return loader.closure(mf.unstack, "back_key_function", {"x": x, "axis": axis})


def kf_scan(scanned, increment, split_every, axis=0):
    import cubed.core.ops as ops

    return loader.closure(
        ops.scan, "back_key_function", {"scanned": scanned, "increment": increment, "split_every": split_every, "axis": axis}
    )


def kf_block_id(inner, offsets_name):
    """general_blockwise's wrapper that appends the offsets-array key (block id delivery)"""
    import cubed.core.ops as ops

    class _Off:
        name = offsets_name

    outer = loader.closure(ops.general_blockwise, "back_key_function_with_offset", {"offsets": _Off})
    return outer(inner)


def _box(out_names, kf, fn, arg_names, preds=(), nib=None):
    b = SpecBox(out_names, mk_spec(kf, fn, out_names, nib or (1,) * len(arg_names)), preds)
    b.arg_names = list(arg_names)
    return b


def leaves(box):
    prod = {n for p in box.preds for n in p.out_names}
    out = {n for n in box.arg_names if n not in prod}
    for p in box.preds:
        out |= leaves(p)
    return out


# scenario builders: each returns (root box, out coords tuple, which output) for symbolic geometry
def sc_elem_over_elem(n, c, **_):
    """(a+b) * c : two-level elementwise chain, 1-d, n blocks"""
    p = _box(["p"], kf_elemwise("p", ["a", "b"], [(n,), (n,)], 1), ufunc("add"), ["a", "b"])
    r = _box(["r"], kf_elemwise("r", ["p", "c"], [(n,), (n,)], 1), ufunc("mul"), ["p", "c"], [p])
    sx.assume(c < n)
    return r, (c,), 0


def sc_repeated_arg(n, c, **_):
    """f(p, p) with p = g(a): repeated argument"""
    p = _box(["p"], kf_elemwise("p", ["a"], [(n,)], 1), ufunc("neg"), ["a"])
    r = _box(["r"], kf_elemwise("r", ["p", "p"], [(n,), (n,)], 1), ufunc("add"), ["p", "p"], [p])
    sx.assume(c < n)
    return r, (c,), 0


def sc_broadcast_2d(n, m, c, c2, **_):
    """r[i,j] = f(p[i,j], q[j]) with p = g(a[i,j], b[j]) (b broadcast), q = h(d[j])"""
    p = _box(["p"], kf_elemwise("p", ["a", "b"], [(n, m), (m,)], 2), ufunc("g"), ["a", "b"])
    q = _box(["q"], kf_elemwise("q", ["d"], [(m,)], 1), ufunc("h"), ["d"])
    r = _box(["r"], kf_elemwise("r", ["p", "q"], [(n, m), (m,)], 2), ufunc("f"), ["p", "q"], [p, q])
    sx.assume(c < n)
    sx.assume(c2 < m)
    return r, (c, c2), 0


def sc_transpose_chain(n, m, c, c2, **_):
    """r = f(transpose(g(a)))  a: n x m blocks"""
    p = _box(["p"], kf_elemwise("p", ["a"], [(n, m)], 2), ufunc("g"), ["a"])
    t = _box(["t"], kf_transpose("t", "p", (n, m)), ufunc("T"), ["p"], [p])
    r = _box(["r"], kf_elemwise("r", ["t", "e"], [(m, n), (m, n)], 2), ufunc("f"), ["t", "e"], [t])
    sx.assume(c < m)
    sx.assume(c2 < n)
    return r, (c, c2), 0


def sc_reduce_over_elem(n, s, c, **_):
    """partial_reduce (stream of blocks, fan-in s) over an elementwise op of two inputs"""
    p = _box(["p"], kf_elemwise("p", ["a", "b"], [(n,), (n,)], 1), ufunc("add"), ["a", "b"])
    r = _box(["r"], kf_partial_reduce(NB("p", (n,)), s), ufunc("reduce"), ["p"], [p], nib=(s,))
    nb_out = (n + s - 1) // s
    sx.assume(c < nb_out)
    return r, (c,), 0


def sc_reduce_over_reduce_over_elem(n, s, c, **_):
    """two partial_reduce rounds over an elementwise op (depth 3)"""
    p = _box(["p"], kf_elemwise("p", ["a"], [(n,)], 1), ufunc("sq"), ["a"])
    n1 = (n + s - 1) // s
    r1 = _box(["r1"], kf_partial_reduce(NB("p", (n,)), s), ufunc("red1"), ["p"], [p], nib=(s,))
    r2 = _box(["r2"], kf_partial_reduce(NB("r1", (n1,)), s), ufunc("red2"), ["r1"], [r1], nib=(s,))
    n2 = (n1 + s - 1) // s
    sx.assume(c < n2)
    return r2, (c,), 0


def sc_elem_over_reduce(n, s, c, **_):
    """elementwise op over a partial_reduce result (function receives an iterator below)"""
    n1 = (n + s - 1) // s
    r1 = _box(["r1"], kf_partial_reduce(NB("a", (n,)), s), ufunc("red"), ["a"], nib=(s,))
    e = _box(["e"], kf_elemwise("e", ["r1", "w"], [(n1,), (n1,)], 1), ufunc("mul"), ["r1", "w"], [r1])
    sx.assume(c < n1)
    return e, (c,), 0


def sc_stack_over_elems(n, c, k, **_):
    """stack([g(a), h(b)]) : alternating source; output coord (k, c)"""
    p = _box(["p"], kf_elemwise("p", ["a"], [(n,)], 1), ufunc("g"), ["a"])
    q = _box(["q"], kf_elemwise("q", ["b"], [(n,)], 1), ufunc("h"), ["b"])
    r = _box(["r"], kf_stack(["p", "q"], 0), ufunc("stack"), ["p", "q"], [p, q])
    sx.assume(c < n)
    sx.assume(k < 2)
    return r, (k, c), 0


def sc_elem_over_stack(n, c, k, **_):
    """f(stack([a, g(b)]), w)"""
    q = _box(["q"], kf_elemwise("q", ["b"], [(n,)], 1), ufunc("g"), ["b"])
    st = _box(["st"], kf_stack(["a", "q"], 0), ufunc("stack"), ["a", "q"], [q])
    r = _box(["r"], kf_elemwise("r", ["st", "w"], [(2, n), (2, n)], 2), ufunc("f"), ["st", "w"], [st])
    sx.assume(c < n)
    sx.assume(k < 2)
    return r, (k, c), 0


def sc_repeat_over_elem(n, rep, c, **_):
    """repeat(g(a), rep): one-to-one with floor division, plus block id delivery"""
    p = _box(["p"], kf_elemwise("p", ["a"], [(n,)], 1), ufunc("g"), ["a"])
    kf = kf_block_id(kf_repeat(NB("p", (n,)), rep), "offsets")
    r = _box(["r"], kf, ufunc("repeat"), ["p", "offsets"], [p])
    sx.assume(c < n * rep)
    return r, (c,), 0


def sc_unstack_multi_output(n, m, c, w, **_):
    """unstack over an elementwise op: several args from one array, generator with m outputs"""
    mm = sx.conc(m)
    p = _box(["p"], kf_elemwise("p", ["a"], [(mm, n)], 2), ufunc("g"), ["a"])
    names = [f"u{j}" for j in range(mm)]
    u = _box(names, kf_unstack(NB("p", (mm, n)), 0), ufunc("unstack", multi=mm), ["p"], [p])
    sx.assume(c < n)
    sx.assume(w < mm)
    return u, (c,), sx.conc(w)


def sc_elem_over_unstack_consumer(n, c, **_):
    """f(u0, g(b)) where u0 is one output of a 2-output op that is NOT fused (multi-output predecessors are never
    fused by the optimizer) but the other predecessor is"""
    q = _box(["q"], kf_elemwise("q", ["b"], [(n,)], 1), ufunc("g"), ["b"])
    r = _box(["r"], kf_elemwise("r", ["u0", "q"], [(n,), (n,)], 1), ufunc("f"), ["u0", "q"], [q])
    sx.assume(c < n)
    return r, (c,), 0


def sc_scan_binop(n, se, c, **_):
    """scan step 4: (scanned[c], increment[c // split_every]) with block id, over elementwise predecessors"""
    sc = _box(["sc"], kf_elemwise("sc", ["a"], [(n,)], 1), ufunc("cumsum"), ["a"])
    ninc = (n + se - 1) // se
    inc = _box(["inc"], kf_elemwise("inc", ["z"], [(ninc,)], 1), ufunc("incr"), ["z"])
    kf = kf_block_id(kf_scan(NB("sc", (n,)), NB("inc", (ninc,)), se), "offsets")
    r = _box(["r"], kf, ufunc("binop"), ["sc", "inc", "offsets"], [sc, inc])
    sx.assume(c < n)
    return r, (c,), 0


def sc_reduce_over_stack(n, s, c, k, **_):
    """partial_reduce along axis 0 over a stack of two elementwise results (stream over alternating source)"""
    p = _box(["p"], kf_elemwise("p", ["a"], [(n,)], 1), ufunc("g"), ["a"])
    st = _box(["st"], kf_stack(["p", "b"], 0), ufunc("stack"), ["p", "b"], [p])
    r = _box(["r"], kf_partial_reduce(NB("st", (2, n)), s), ufunc("reduce"), ["st"], [st], nib=(s,))
    sx.assume(c < n)
    return r, (0, c), 0


def _kf_user(out_name, fn):
    """a user-supplied key function (as passed to general_blockwise)"""
    from cubed.primitive.blockwise import ChunkKey, FunctionArgs

    def kf(out_key):
        return FunctionArgs(*fn(ChunkKey, out_key.coords), output_name=out_key.name)

    return kf


def sc_list_mixed_sources(n, c, **_):
    """f([p_c, q_c]) : ONE list argument mixing blocks of two differently derived arrays (concatenating source, list form)"""
    p = _box(["p"], kf_elemwise("p", ["a"], [(n,)], 1), ufunc("g"), ["a"])
    q = _box(["q"], kf_elemwise("q", ["b"], [(n,)], 1), ufunc("h"), ["b"])
    r = _box(["r"], _kf_user("r", lambda CK, co: ([CK("p", co), CK("q", co)],)), ufunc("f"), ["p", "q"], [p, q])
    sx.assume(c < n)
    return r, (c,), 0


def sc_list_mixed_passthrough(n, c, **_):
    """f([a_c, q_c]) : list mixing a raw (unfused) input with a fused predecessor's block, in both orders"""
    q = _box(["q"], kf_elemwise("q", ["b"], [(n,)], 1), ufunc("h"), ["b"])
    r = _box(["r"], _kf_user("r", lambda CK, co: ([CK("a", co), CK("q", co)], [CK("q", co), CK("a", co)])), ufunc("f"), ["a", "q"], [q])
    sx.assume(c < n)
    return r, (c,), 0


def sc_list_same_source(n, c, **_):
    """f([p_2c, p_2c+1]) : list of two blocks of one predecessor array (2n blocks)"""
    p = _box(["p"], kf_elemwise("p", ["a", "b"], [(2 * n,), (2 * n,)], 1), ufunc("g"), ["a", "b"])
    r = _box(["r"], _kf_user("r", lambda CK, co: ([CK("p", (2 * co[0],)), CK("p", (2 * co[0] + 1,))],)), ufunc("f"), ["p"], [p])
    sx.assume(c < n)
    return r, (c,), 0


def sc_iter_mixed_sources(n, c, **_):
    """f(iter([p_c, q_c, p_c+1?])) : stream mixing sources (concat-like)"""
    p = _box(["p"], kf_elemwise("p", ["a"], [(n,)], 1), ufunc("g"), ["a"])
    q = _box(["q"], kf_elemwise("q", ["b"], [(n,)], 1), ufunc("h"), ["b"])
    r = _box(["r"], _kf_user("r", lambda CK, co: (iter([CK("p", co), CK("q", co), CK("p", (0,))]),)), ufunc("f"), ["p", "q"], [p, q])
    sx.assume(c < n)
    return r, (c,), 0


def sc_nested_list_over_list(n, c, **_):
    """depth 3: f([r1_c, q_c]) where r1 = g([p_c, a_c]) itself takes a mixed list"""
    p = _box(["p"], kf_elemwise("p", ["a"], [(n,)], 1), ufunc("g"), ["a"])
    q = _box(["q"], kf_elemwise("q", ["b"], [(n,)], 1), ufunc("h"), ["b"])
    r1 = _box(["r1"], _kf_user("r1", lambda CK, co: ([CK("p", co), CK("w", co)],)), ufunc("m"), ["p", "w"], [p])
    r = _box(["r"], _kf_user("r", lambda CK, co: ([CK("r1", co), CK("q", co)],)), ufunc("f"), ["r1", "q"], [r1, q])
    sx.assume(c < n)
    return r, (c,), 0



def _pairfused_q(n):
    """q = h(g(a)) collapsed into ONE operation by the two-op fuse()"""
    p = _box(["p"], kf_elemwise("p", ["a"], [(n,)], 1), ufunc("g"), ["a"])
    q = _box(["q"], kf_elemwise("q", ["p"], [(n,)], 1), ufunc("h"), ["p"], [p])
    q.pairfuse = True
    return q


def sc_pairfused_single(n, c, **_):
    """f(q_c, a_c) where q is a pair-fused operation: single-block argument"""
    q = _pairfused_q(n)
    r = _box(["r"], kf_elemwise("r", ["q", "a"], [(n,), (n,)], 1), ufunc("f"), ["q", "a"], [q])
    sx.assume(c < n)
    return r, (c,), 0


def sc_pairfused_list(n, c, **_):
    """f([q_c, a_c]) where q is a pair-fused operation: list argument"""
    q = _pairfused_q(n)
    r = _box(["r"], _kf_user("r", lambda CK, co: ([CK("q", co), CK("a", co)],)), ufunc("f"), ["q", "a"], [q])
    sx.assume(c < n)
    return r, (c,), 0


def sc_pairfused_stream(n, s, c, **_):
    """partial_reduce (stream, fan-in s) over a pair-fused operation"""
    q = _pairfused_q(n)
    r = _box(["r"], kf_partial_reduce(NB("q", (n,)), s), ufunc("reduce"), ["q"], [q], nib=(s,))
    sx.assume(c < (n + s - 1) // s)
    return r, (c,), 0


SCENARIOS = {
    "elem>pair-fused(single)": (sc_pairfused_single, ["n", "c"]),
    "list>pair-fused": (sc_pairfused_list, ["n", "c"]),
    "reduce>pair-fused": (sc_pairfused_stream, ["n", "s", "c"]),
    "list-mixed-sources>elems": (sc_list_mixed_sources, ["n", "c"]),
    "list-mixed-with-passthrough": (sc_list_mixed_passthrough, ["n", "c"]),
    "list-same-source>elem": (sc_list_same_source, ["n", "c"]),
    "iter-mixed-sources>elems": (sc_iter_mixed_sources, ["n", "c"]),
    "list>list-mixed(d3)": (sc_nested_list_over_list, ["n", "c"]),
    "elem>elem": (sc_elem_over_elem, ["n", "c"]),
    "repeated-arg": (sc_repeated_arg, ["n", "c"]),
    "broadcast-2d": (sc_broadcast_2d, ["n", "m", "c", "c2"]),
    "transpose-chain(d3)": (sc_transpose_chain, ["n", "m", "c", "c2"]),
    "reduce>elem": (sc_reduce_over_elem, ["n", "s", "c"]),
    "reduce>reduce>elem(d3)": (sc_reduce_over_reduce_over_elem, ["n", "s", "c"]),
    "elem>reduce": (sc_elem_over_reduce, ["n", "s", "c"]),
    "stack>elems": (sc_stack_over_elems, ["n", "c", "k"]),
    "elem>stack>elem(d3)": (sc_elem_over_stack, ["n", "c", "k"]),
    "repeat+blockid>elem": (sc_repeat_over_elem, ["n", "rep", "c"]),
    "unstack-multi-output>elem": (sc_unstack_multi_output, ["n", "m", "c", "w"]),
    "elem>(unfused,elem)": (sc_elem_over_unstack_consumer, ["n", "c"]),
    "scan-binop+blockid>elems": (sc_scan_binop, ["n", "se", "c"]),
    "reduce>stack>elem(d3)": (sc_reduce_over_stack, ["n", "s", "c", "k"]),
}


def make_fusion(name):
    builder, _ = SCENARIOS[name]

    def h(**kw):
        root, coords, which = builder(**kw)
        fused = fuse_tree(root)
        a = eval_unfused(root, coords, which)
        b = eval_fused(fused, root.out_names[0], coords, which, leaf_names=leaves(root))
        sx.note(("unfused", a))
        sx.require(terms_equal(a, b), "fused-provenance-differs", f"unfused={a} fused={b}")
        # num_input_blocks of the fused spec has one entry per leaf argument (documented invariant)
        sx.require(len(fused.num_input_blocks) >= 1, "fused-num-input-blocks-empty")

    return h


def make_fusion_twin(name):
    builder, _ = SCENARIOS[name]

    def h(**kw):
        root, coords, which = builder(**kw)
        fused = fuse_tree(root)
        b = eval_fused(fused, root.out_names[0], coords, which, leaf_names=leaves(root))
        raise sx.Violated("reached-fused-evaluation")

    return h


def pair_fuse_harness(n, s, c):
    """the legacy two-op fuse(): fused_key_func = kf1(kf2(out).args[0]); checked on elem>elem with real PrimitiveOperation shells"""
    from cubed.primitive.blockwise import ChunkKey, fuse, map_nested
    from cubed.primitive.types import PrimitiveOperation
    from cubed.runtime.types import CubedPipeline

    sx.assume(c < n)
    kf1 = kf_elemwise("p", ["a", "b"], [(n,), (n,)], 1)
    kf2 = kf_elemwise("r", ["p"], [(n,)], 1)
    s1 = mk_spec(kf1, ufunc("add"), ["p"], (1, 1))
    s2 = mk_spec(kf2, ufunc("neg"), ["r"], (1,))

    def op(spec, pm, nt):
        return PrimitiveOperation(
            pipeline=CubedPipeline(None, "x", None, spec), source_array_names=["a", "b"], target_array=None,
            projected_mem=pm, allowed_mem=1000, reserved_mem=0, num_tasks=nt,
        )

    fused = fuse(op(s1, 10, 4), op(s2, 20, 4))
    fa = fused.pipeline.config.back_key_function(ChunkKey("r", (c,)))
    args = map_nested(lambda k: ("blk", k.name, tuple(k.coords)), fa)
    got = term(fused.pipeline.config.function(*args.args))
    want = ("F", "neg", (("F", "add", (("blk", "a", (c,)), ("blk", "b", (c,)))),))
    sx.require(terms_equal(got, want), "pair-fuse-provenance-differs", f"{got} vs {want}")
    sx.require(fused.projected_mem == 20 and fused.num_tasks == 4, "pair-fuse-metadata")


def obligations(tier):
    import cubed.array_api.manipulation_functions as mf
    import cubed.core.ops as ops
    import cubed.primitive.blockwise as pb
    import cubed.vendor.dask.blockwise as db

    fa = [pb.make_blockwise_back_key_function, pb.make_blockwise_back_key_function_flattened, db._get_coord_mapping,
          db._make_dims, db.broadcast_dimensions, db.lol_product]
    fb = [pb.fuse_blockwise_specs, pb.make_fused_back_key_function, pb.make_fused_function, pb.apply_blockwise_key_func,
          pb._apply_blockwise_key_func_to_chunk_key, pb.apply_blockwise_func, pb.map_nested, pb._map_nested_impl, pb.fuse,
          ops.partial_reduce, ops.scan, ops.general_blockwise, mf.stack, mf.repeat, mf.unstack]
    obls = []
    if tier == "quick":
        pats = [(1, 2, 3), (2, 2, 2)]
        wall = 600
    else:
        pats = [(1, 3, 4), (2, 2, 3), (2, 3, 3), (3, 2, 2)]
        wall = 3000
    for A, MAXD, S in pats:
        # split by the first argument's rank (and out rank) so that slices run in parallel; each slice is decided by z3
        for nd0 in range(MAXD + 1):
            for ndo in range(MAXD + 1):
                if (A, MAXD, S, nd0, ndo) == (2, 3, 3, 3, 3):
                    continue  # two 3-d arguments into a 3-d output over 3 symbols did not finish in 3000 s: outside the thorough claim
                obls.append(
                    Obl(
                        f"pattern[args={A},maxdim={MAXD},symbols={S},nd0={nd0},ndo={ndo}]",
                        make_pattern(A, MAXD, S, {"nd0": nd0, "ndo": ndo}),
                        pattern_vars(A, MAXD, S),
                        functions=fa,
                        bounds=f"{A} argument(s) with 0..{MAXD} dims each, symbols 0..{S-1} (distinct within an index), output 0..{MAXD} dims, "
                        "block counts 1..3 per symbol with per-argument broadcast (count 1), new axes with 1..2 blocks, every output coordinate",
                        outside="repeated symbols inside one index (diagonals); literal (None-index) arguments; more symbols/arguments than the bound",
                        wall_s=wall,
                        witness_rule=lambda m: sum(m.get(f"d{s}", 1) > 1 for s in range(4)) >= 1,
                    )
                )
    obls.append(Obl("twin:pattern", make_pattern_twin(1, 2, 3), pattern_vars(1, 2, 3), twin_of="pattern", wall_s=wall))
    N = 4 if tier == "quick" else 7
    doms = {"n": (1, N), "m": (1, 3), "c": (0, N * 3), "c2": (0, 3), "s": (2, 4), "k": (0, 1), "rep": (1, 3), "w": (0, 2), "se": (2, 5)}
    for name, (builder, vs) in SCENARIOS.items():
        obls.append(
            Obl(
                f"fusion[{name}]",
                make_fusion(name),
                [(v, *doms[v]) for v in vs],
                functions=fb,
                bounds=f"block counts n<= {N}, m<=3, fan-in 2..4, repeats 1..3, split_every 2..5; every output coordinate; fusion depth per scenario name (d3 = three levels)",
                outside="fusion trees deeper than 3; key-function shapes not in the scenario list (concat/index selections: see C01/C02)",
                wall_s=wall,
                witness_rule=lambda m: m.get("n", 0) >= 2,
            )
        )
    obls.append(Obl("twin:fusion[reduce>elem]", make_fusion_twin("reduce>elem"), [(v, *doms[v]) for v in ["n", "s", "c"]], twin_of="fusion[reduce>elem]", wall_s=wall))
    obls.append(Obl("pair-fuse", pair_fuse_harness, [("n", 1, N), ("s", 2, 3), ("c", 0, N)], functions=[pb.fuse], bounds=f"n<= {N}", wall_s=wall))
    return obls
