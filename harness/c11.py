"""C11 -- store / to_zarr fill every target completely, and only inside the requested region (geometry part).

Real store/_store_array/to_zarr run on metadata-only sources and targets (existing arrays with their own chunking,
sharded arrays, paths) with symbolic geometry and region; the resulting real plan is evaluated on abstract blocks:
a target element inside the region receives source element (e - region.start), an element outside is written by no
task, the block a task writes has the extent of its region, and misaligned / wrongly shaped regions and mismatched
source/target/region lists are rejected with ValueError at build time.
"""
from __future__ import annotations

from engine import sx
from engine.obligation import Obl
from geom import backend as G
from harness import c01
from harness import storegeom as SG
from stubs import anp

EXPLANATION = (
    "bounded symbolic execution (sx/z3) of the real store/_store_array/to_zarr construction and of the resulting tasks on abstract "
    "blocks: for a symbolic target element the provenance term (or 'unwritten') is compared with the region semantics, for all "
    "source/target chunkings, region offsets and lengths within the bound"
)
TRUSTED_BASE = c01.TRUSTED_BASE
ASSUMPTIONS = ["eager-vs-lazy HISTORIES of store calls (store, compute something else, store again ...) are object-graph histories with no symbolic domain: outside the claim (see DESIGN.md C10/C11); one source stored to two targets in one call / two lazy calls is decided (fill[one-source,two-targets])"]


def _oracle(out, info, g, src_term):
    ev = G.Evaluator(out._plan.dag)
    t = ev.elem_of(out.name, (g,))
    region = info.get("region")
    if region is None:
        sx.require(not anp.has_uninit(t) and t != ("unwritten",), "target-element-not-written", f"element {g}: {t}")
        sx.require(anp.terms_equal(t, src_term(g)), "target-element-has-wrong-source", f"element {g}: {t}")
    else:
        a, b = region
        if sx.sand(g >= a, g < b):
            sx.require(t != ("unwritten",) and not anp.has_uninit(t), "region-element-not-written", f"element {g}: {t}")
            sx.require(anp.terms_equal(t, src_term(g - a)), "region-element-has-wrong-source", f"element {g}: {t} (region {a}:{b})")
        else:
            sx.require(t == ("unwritten",), "element-outside-region-written", f"element {g}: {t} (region {a}:{b})")


def _x(i):
    return ("elem", "x", (i,))


def _negx(i):
    return ("fn", "negative", (("elem", "x", (i,)),))


def h_whole_leaf(n, c, tc, g):
    out, info = SG.b_store_whole(n, c, tc, 0)
    sx.assume(g < n)
    _oracle(out, info, g, _x)


def h_whole_lazy(n, c, tc, g):
    out, info = SG.b_store_whole(n, c, tc, 1)
    sx.assume(g < n)
    _oracle(out, info, g, _negx)


def h_region(n, c, tn, tc, a, g):
    out, info = SG.b_store_region(n, c, tn, tc, a)
    sx.assume(g < tn)
    _oracle(out, info, g, _x)


def h_region_misaligned(n, c, tn, tc, a):
    """a region whose start (or interior stop) is not on a target chunk boundary must be rejected at build time"""
    import cubed

    c01._start()
    sx.assume(c <= n)
    sx.assume(tc <= tn)
    sx.assume(a + n <= tn)
    aligned = sx.sand(a % tc == 0, sx.sor((a + n) % tc == 0, a + n == tn))
    x = G.stub_array("x", (n,), (c,))
    target = G.ZStub((tn,), (tc,), "float64")
    try:
        cubed.store([x], [target], regions=(slice(a, a + n),), compute=False)
    except ValueError:
        sx.require(sx.snot(aligned), "aligned-region-rejected", f"a={a} n={n} tc={tc} tn={tn}")
        return
    sx.require(aligned, "misaligned-region-accepted", f"a={a} n={n} tc={tc} tn={tn}")


def h_region_wrong_shape(n, c, tn, tc, a, ln):
    """source shape != region shape must be rejected"""
    import cubed

    c01._start()
    sx.assume(c <= n)
    sx.assume(tc <= tn)
    sx.assume(a + ln <= tn)
    sx.assume(a % tc == 0)
    sx.assume(sx.sor((a + ln) % tc == 0, a + ln == tn))
    x = G.stub_array("x", (n,), (c,))
    target = G.ZStub((tn,), (tc,), "float64")
    try:
        cubed.store([x], [target], regions=(slice(a, a + ln),), compute=False)
    except ValueError:
        sx.require(ln != n, "matching-region-rejected")
        return
    sx.require(ln == n, "region-of-wrong-shape-accepted", f"source {n} region length {ln}")


def h_region_short(n, c, tn, tc, a, g0, g1):
    """a region with FEWER slices than the target has dimensions (NumPy: target[a:a+n] = source; trailing dimensions whole):
    2-d target (tn, 2) in chunks (tc, 1), source (n, 2): inside the region element (g0, g1) is source (g0 - a, g1), outside unwritten;
    or the call is refused at build time"""
    import cubed

    c01._start()
    sx.assume(c <= n)
    sx.assume(tc <= tn)
    sx.assume(a + n <= tn)
    sx.assume(g0 < tn)
    sx.assume(a % tc == 0)
    sx.assume(sx.sor((a + n) % tc == 0, a + n == tn))
    x = G.stub_array("x", (n, 2), (c, 1))
    target = G.ZStub((tn, 2), (tc, 1), "float64")
    g1 = sx.conc(g1)
    try:
        (out,) = cubed.store([x], [target], regions=(slice(a, a + n),), compute=False)
    except (ValueError, NotImplementedError, IndexError, TypeError):
        return  # refused up front: allowed
    try:
        t = G.Evaluator(out._plan.dag).elem_of(out.name, (g0, g1))
    except Exception as ex:  # noqa: BLE001 - an accepted store must run
        raise sx.Violated("accepted-region-store-fails-in-a-task", f"{type(ex).__name__}: {str(ex)[:200]}") from ex
    if sx.sand(g0 >= a, g0 < a + n):
        sx.require(t != ("unwritten",) and not anp.has_uninit(t), "region-element-not-written", f"element ({g0},{g1}): {t}")
        sx.require(anp.terms_equal(t, ("elem", "x", (g0 - a, g1))), "region-element-has-wrong-source", f"element ({g0},{g1}): {t} (region {a}:{a + n})")
    else:
        sx.require(t == ("unwritten",), "element-outside-region-written", f"element ({g0},{g1}): {t}")


def h_region_odd_bounds(n, c, tn, tc, kind, k, g):
    """region bounds NumPy accepts but that are not plain non-negative unit-step slices: negative start (slice(-k, None)), step 2,
    open start/stop (None): either refused at build time or filled exactly as NumPy would; never a failure inside a task"""
    import cubed

    c01._start()
    sx.assume(c <= n)
    sx.assume(tc <= tn)
    sx.assume(g < tn)
    kd = sx.conc(kind)
    tn_ = sx.conc(tn)
    k_ = sx.conc(k)
    sx.assume(k_ <= tn_)
    reg = [slice(-k_, None), slice(0, tn_, 2), slice(None, k_), slice(tn_ - k_, None)][kd]
    idxs = list(range(tn_))[reg]
    sx.assume(n == len(idxs))
    x = G.stub_array("x", (n,), (c,))
    target = G.ZStub((tn_,), (tc,), "float64")
    try:
        (out,) = cubed.store([x], [target], regions=(reg,), compute=False)
    except (ValueError, NotImplementedError, IndexError, TypeError):
        return  # refused up front
    try:
        t = G.Evaluator(out._plan.dag).elem_of(out.name, (g,))
    except Exception as ex:  # noqa: BLE001
        raise sx.Violated("accepted-region-store-fails-in-a-task", f"region {reg}: {type(ex).__name__}: {str(ex)[:200]}") from ex
    gg = sx.conc(g)
    if gg in idxs:
        sx.require(anp.terms_equal(t, ("elem", "x", (idxs.index(gg),))), "region-element-has-wrong-source", f"region {reg} element {gg}: {t}")
    else:
        sx.require(t == ("unwritten",), "element-outside-region-written", f"region {reg} element {gg}: {t}")


def h_path(n, c, g):
    out, info = SG.b_store_path(n, c)
    sx.assume(g < n)
    _oracle(out, info, g, _negx)


def h_sharded(n, c, sh, g):
    out, info = SG.b_store_sharded(n, c, sh)
    sx.assume(g < n)
    _oracle(out, info, g, _x)


def h_sharded_inner(n, c, ic, k, a, use_region, g):
    """sharded target whose inner chunks are smaller than its shards, whole store or region store at a (shard-aligned) offset"""
    out, info = SG.b_store_sharded_inner(n, c, ic, k, a, use_region)
    sx.assume(g < info["shape"][0])
    _oracle(out, info, g, _x)


def h_two_targets(n, c, tc, k1, k2, lazy, which, g):
    """ONE source stored to TWO targets in one store() call (or two lazy store calls): each target -- an existing array with its own
    chunking (kind 0) or a path (kind 1) -- must be written by exactly one operation of the combined plan and receive source element g"""
    import cubed
    from cubed.core.plan import arrays_to_plan

    c01._start()
    sx.assume(c <= n)
    sx.assume(tc <= n)
    sx.assume(g < n)
    x = G.stub_array("x", (n,), (c,))
    lz = sx.conc(lazy)
    src = c01._xp().negative(x) if lz else x
    kinds = (sx.conc(k1), sx.conc(k2))
    tgts = [G.ZStub((n,), (tc,), "float64") if k == 0 else f"/nonexistent-verif/two-targets-{i}.zarr" for i, k in enumerate(kinds)]
    if lz == 2:  # two separate lazy store calls on the same source object
        res = tuple(cubed.store([src], [t], compute=False)[0] for t in tgts)
    else:
        res = cubed.store([src, src], tgts, compute=False)
    dag = arrays_to_plan(*res).dag
    w = sx.conc(which)
    tgt = tgts[w]
    writers = []
    for opname, op in G.all_ops(dag):
        cfg = op.pipeline.config
        for an, wp in getattr(cfg, "writes_map", {}).items():
            arr = wp.array
            if arr is tgt or (isinstance(tgt, str) and str(getattr(arr, "store", None)) == tgt):
                writers.append((opname, an))
    sx.require(len(writers) >= 1, "target-written-by-no-operation", f"target {w} ({'path' if kinds[w] else 'existing array'}) of {kinds}, lazy={lz}")
    sx.require(len(writers) == 1, "target-written-by-several-operations", f"target {w}: {writers}")
    t = G.Evaluator(dag).elem_of(writers[0][1], (g,))
    sx.require(not anp.has_uninit(t) and t != ("unwritten",), "target-element-not-written", f"target {w} element {g}: {t}")
    sx.require(anp.terms_equal(t, _negx(g) if lz else _x(g)), "target-element-has-wrong-source", f"target {w} element {g}: {t}")


def h_pairing(ns, nt, nr, bad):
    """store() argument pairing: lengths of sources / targets / regions must agree, sources must be cubed arrays"""
    import cubed

    c01._start()
    ns_, nt_, nr_ = sx.conc(ns), sx.conc(nt), sx.conc(nr)
    srcs = [G.stub_array(f"x{i}", (4,), (2,)) for i in range(ns_)]
    if sx.conc(bad) == 1 and srcs:
        srcs[0] = object()
    tgts = [G.ZStub((4,), (2,), "float64") for _ in range(nt_)]
    regions = None if nr_ == 0 else [(slice(0, 4),)] * (nr_ - 1)  # nr=1 -> [], nr=2 -> one region ...
    should_fail = (ns_ != nt_) or (regions is not None and len(regions) != ns_) or (sx.conc(bad) == 1 and ns_ > 0)
    try:
        res = cubed.store(srcs, tgts, regions=regions, compute=False)
    except ValueError:
        sx.require(should_fail, "valid-pairing-rejected", f"{ns_} sources {nt_} targets regions={regions}")
        return
    sx.require(not should_fail, "invalid-pairing-accepted", f"{ns_} sources {nt_} targets regions={regions}")
    sx.require(len(res) == ns_, "wrong-number-of-results")


def obligations(tier):
    import cubed.core.ops as ops
    import cubed.primitive.blockwise as pb

    N = 7 if tier == "quick" else 12
    wall = 600 if tier == "quick" else 3000
    fns = [ops.store, ops._store_array, ops.to_zarr, ops.blockwise, ops.general_blockwise, ops.rechunk, pb.general_blockwise, pb.key_to_slices]
    common = dict(allowed=SG.ALLOWED, setup=SG.setup, functions=fns, wall_s=wall, stubs=["geom.ZStub targets", "indexer_model", "anp"],
                  outside="aliasing of sources/targets (histories), >1 dim regions, sharding codec internals")
    o = []
    o.append(Obl("fill[existing-target,leaf-source]", h_whole_leaf, [("n", 1, N), ("c", 1, N), ("tc", 1, N), ("g", 0, N)],
                 bounds=f"n, source chunk, target chunk <= {N}; every target element", witness_rule=lambda m: m["c"] != m["tc"], **common))
    o.append(Obl("fill[existing-target,computed-source]", h_whole_lazy, [("n", 1, N), ("c", 1, N), ("tc", 1, N), ("g", 0, N)],
                 bounds=f"n, source chunk, target chunk <= {N}", witness_rule=lambda m: m["c"] != m["tc"], **common))
    R = 5 if tier == "quick" else 9
    o.append(Obl("fill[region]", h_region, [("n", 1, R), ("c", 1, R), ("tn", 1, R + 3), ("tc", 1, R), ("a", 0, R), ("g", 0, R + 3)],
                 bounds=f"source n<= {R}, target <= {R+3}, all chunkings, every aligned region offset, every target element", witness_rule=lambda m: m["c"] != m["tc"], **common))
    o.append(Obl("reject[misaligned-region]", h_region_misaligned, [("n", 1, R), ("c", 1, R), ("tn", 1, R + 3), ("tc", 1, R), ("a", 0, R)],
                 bounds="as fill[region], aligned and misaligned offsets", **common))
    o.append(Obl("reject[region-shape]", h_region_wrong_shape, [("n", 1, R), ("c", 1, R), ("tn", 1, R + 3), ("tc", 1, R), ("a", 0, R), ("ln", 1, R)],
                 bounds="as fill[region], region length independent of the source length", **common))
    o.append(Obl("fill[region,fewer-slices-than-dims]", h_region_short, [("n", 1, R), ("c", 1, R), ("tn", 1, R + 3), ("tc", 1, R), ("a", 0, R), ("g0", 0, R + 3), ("g1", 0, 1)],
                 bounds=f"2-d target (tn <= {R + 3}, 2) in chunks (tc, 1), source (n <= {R}, 2), region = one slice", witness_rule=lambda m: m["n"] >= 2, **common))
    o.append(Obl("fill[region,negative/stepped/open-bounds]", h_region_odd_bounds, [("n", 1, R + 3), ("c", 1, R), ("tn", 1, R + 3), ("tc", 1, R), ("kind", 0, 3), ("k", 1, R), ("g", 0, R + 3)],
                 bounds=f"1-d target tn <= {R + 3}; regions slice(-k, None), slice(0, tn, 2), slice(None, k), slice(tn-k, None)", witness_rule=lambda m: m["tn"] >= 3, **common))
    o.append(Obl("fill[to_zarr-path]", h_path, [("n", 1, N), ("c", 1, N), ("g", 0, N)], bounds=f"n, chunk <= {N}", **common))
    o.append(Obl("fill[sharded-target]", h_sharded, [("n", 1, N), ("c", 1, N), ("sh", 1, N), ("g", 0, N)], bounds=f"n, chunk, shard <= {N}", witness_rule=lambda m: m["c"] != m["sh"], **common))
    o.append(Obl("fill[sharded-target,inner-chunks]", h_sharded_inner, [("n", 1, 6), ("c", 1, 6), ("ic", 1, 2), ("k", 1, 3), ("a", 0, 6), ("use_region", 0, 1), ("g", 0, 12)],
                 bounds="n, source chunk <= 6; inner chunks 1..2, shards of 1..3 inner chunks; whole store or a region at offset 0..6 (accepted only when shard-aligned)",
                 witness_rule=lambda m: m["k"] >= 2 and m["a"] >= 1, **common))
    RT = min(R, 6)  # thorough tier: 6 (the 3 x 2 x 2 x 2 kinds of source / targets multiply the geometry)
    o.append(Obl("fill[one-source,two-targets]", h_two_targets, [("n", 1, RT), ("c", 1, RT), ("tc", 1, RT), ("k1", 0, 1), ("k2", 0, 1), ("lazy", 0, 2), ("which", 0, 1), ("g", 0, RT)],
                 bounds=f"n, source chunk, target chunk <= {RT}; each target an existing array or a path; source a leaf, an uncomputed array, or an uncomputed array stored by two lazy store() calls",
                 witness_rule=lambda m: m["lazy"] >= 1, **common))
    o.append(Obl("pairing", h_pairing, [("ns", 0, 3), ("nt", 0, 3), ("nr", 0, 4), ("bad", 0, 1)], bounds="0..3 sources/targets, regions None or a list of 0..3", **common))

    def twin(**kw):
        h_region(**kw)
        if kw["c"] != kw["tc"]:
            raise sx.Violated("reached-end-with-different-chunking")

    o.append(Obl("twin:fill[region]", twin, [("n", 1, R), ("c", 1, R), ("tn", 1, R + 3), ("tc", 1, R), ("a", 0, R), ("g", 0, R + 3)], allowed=SG.ALLOWED, setup=SG.setup, twin_of="fill[region]", wall_s=wall))
    return o
