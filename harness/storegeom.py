"""Shared scenario builders for C05 / C11 / C13: rechunk copy operations and store/to_zarr geometry, built through
the real construction path (geom backend) with symbolic geometry, memory budget and region."""
from __future__ import annotations

from engine import sx
from geom import backend as G
from harness import c01
from stubs import anp

ALLOWED = (ValueError, TypeError, NotImplementedError, IndexError)


def setup():
    c01.setup()


def spec_with_mem(M):
    import cubed

    return cubed.Spec(work_dir="/nonexistent-verif", allowed_mem=M, reserved_mem=0)


# ---------------------------------------------------------------------------------------------
# lemmas over a built plan
# ---------------------------------------------------------------------------------------------
def storage_grid(arr, d):
    """('regular', size) or ('rect', offsets list) of dimension d of a target array.  For a sharded array the stored objects are the
    SHARDS (an inner chunk is updated by read-modify-write of its shard), so the shard grid is the storage grid"""
    ch = arr.chunks
    if getattr(arr, "shards", None) is not None:
        ch = arr.shards
    c = ch[d]
    if isinstance(c, (tuple, list)):
        offs = [0]
        for s in c:
            offs.append(offs[-1] + s)
        return ("rect", offs)
    return ("regular", c)


def grid_lemma(dag, pvars):
    """C05, per dimension: every task-region boundary is a storage-chunk boundary, so every stored chunk lies inside
    exactly one task's write region (one writer, whole-chunk write, no read-modify-write), and the task regions tile
    the array.  pvars: symbolic positions (one per dimension)."""
    n_ops = 0
    for opname, op in G.all_ops(dag):
        spec = op.pipeline.config
        if not hasattr(spec, "writes_map"):
            continue
        n_ops += 1
        for an, wp in spec.writes_map.items():
            tgt = wp.array
            for d in range(len(tgt.shape)):
                n = tgt.shape[d]
                t = sx.conc(wp.chunks[d])  # task grid size (forked by value: keeps the arithmetic linear)
                p = pvars[d] if d < len(pvars) else 0
                kind, g = storage_grid(tgt, d)
                # p is an interior task boundary?
                if sx.sand(p > 0, p < n, p % t == 0):
                    if kind == "regular":
                        s_ = sx.conc(g)
                        sx.require(p % s_ == 0, "task-boundary-inside-a-stored-chunk",
                                   f"{opname}->{an} dim {d}: task chunk {t}, stored chunk {s_}, boundary {p}")
                    else:
                        sx.require(sx.sor(*[p == o for o in g]), "task-boundary-inside-a-stored-chunk",
                                   f"{opname}->{an} dim {d}: task chunk {t}, stored chunk offsets {g}, boundary {p}")
                # the stored grid covers the array exactly
                if kind == "rect":
                    sx.require(g[-1] == n, "stored-grid-does-not-cover-array", f"{opname}->{an} dim {d}: {g} vs {n}")
                    for a_, b_ in zip(g, g[1:]):
                        sx.require(b_ > a_, "empty-or-negative-stored-chunk", f"{opname}->{an} dim {d}: {g}")
    return n_ops


def counts_lemma(dag):
    """C13: for every op the advertised num_tasks equals the length of its task iterable; tasks are pairwise distinct"""
    total = 0
    for opname, op in G.all_ops(dag):
        raw = list(op.pipeline.mappable) if op.pipeline.mappable is not None else []
        tasks = [tuple(sx.conc(c) for c in t) if isinstance(t, (list, tuple)) else id(t) for t in raw]
        nt = op.num_tasks
        sx.require(nt == len(tasks), "num_tasks-differs-from-number-of-tasks", f"{opname}: num_tasks={nt} but {len(tasks)} tasks {tasks[:6]}")
        sx.require(len(set(tasks)) == len(tasks), "duplicate-task", f"{opname}: {tasks}")
        total = total + nt
    return total


# ---------------------------------------------------------------------------------------------
# scenarios: each returns (out array or tuple, info dict)
# ---------------------------------------------------------------------------------------------
def b_rechunk_1d(n, c, c2, M, irregular):
    c01._start()
    sx.assume(c <= n)
    sx.assume(c2 <= n)
    x = G.stub_array("x", (n,), (c,), spec=spec_with_mem(M))
    out = x.rechunk((c2,), min_mem=1, allow_irregular=bool(irregular))
    return out, {"shape": (n,), "src": "x"}


def b_rechunk_2d_transpose(n, m, c, t, M, mn, irregular):
    """(n, m) array with chunks (c, 1) rechunked to (1, t) under a tight budget: multi-stage plans with intermediate
    arrays.  The geometry is forked by value up front (keeps the planner arithmetic linear); budgets stay symbolic."""
    import warnings

    c01._start()
    n, m, c, t = sx.conc(n), sx.conc(m), sx.conc(c), sx.conc(t)
    if c > n or t > m:
        raise sx.Infeasible()
    x = G.stub_array("x", (n, m), (c, 1), dtype="int8", spec=spec_with_mem(M))
    with warnings.catch_warnings():
        warnings.simplefilter("ignore")
        out = x.rechunk((1, t), min_mem=mn, allow_irregular=bool(irregular))
    return out, {"shape": (n, m), "src": "x"}


def b_rechunk_2d(n, m, c, c2, d, d2, M, irregular):
    c01._start()
    sx.assume(c <= n)
    sx.assume(c2 <= n)
    sx.assume(d <= m)
    sx.assume(d2 <= m)
    x = G.stub_array("x", (n, m), (c, d), spec=spec_with_mem(M))
    out = x.rechunk((c2, d2), min_mem=1, allow_irregular=bool(irregular))
    return out, {"shape": (n, m), "src": "x"}


def b_store_whole(n, c, tc, lazy_source, open_region=0):
    """store a source (leaf, or computed by an op) into an EXISTING array with its own chunking tc; open_region=1 passes the
    all-open region (slice(None),), which means the whole target just as region=None does"""
    import cubed

    c01._start()
    sx.assume(c <= n)
    sx.assume(tc <= n)
    x = G.stub_array("x", (n,), (c,))
    src = c01._xp().negative(x) if lazy_source else x
    target = G.ZStub((n,), (tc,), "float64")
    kw = {"regions": (slice(None),)} if sx.conc(open_region) == 1 else {}
    (out,) = cubed.store([src], [target], compute=False, **kw)
    return out, {"shape": (n,), "target": target, "region": None, "src_chunks": c, "lazy": bool(lazy_source)}


def b_store_region(n, c, tn, tc, a):
    """store a source of length n into region [a, a+n) of an existing array of length tn with chunk size tc"""
    import cubed

    c01._start()
    sx.assume(c <= n)
    sx.assume(tc <= tn)
    sx.assume(a + n <= tn)
    x = G.stub_array("x", (n,), (c,))
    target = G.ZStub((tn,), (tc,), "float64")
    a_, n_ = sx.conc(a), None
    region = (slice(a, a + n),)
    (out,) = cubed.store([x], [target], regions=region, compute=False)
    return out, {"shape": (tn,), "target": target, "region": (a, a + n), "src_chunks": c}


def b_store_sharded_inner(n, c, ic, k, a, use_region):
    """store into an existing SHARDED array with inner chunks `ic` and shards of k inner chunks, whole (use_region=0) or into the
    region [a, a+n) of a target of length a + n rounded up to a whole number of shards"""
    import warnings

    import cubed

    c01._start()
    sx.assume(c <= n)
    k_ = sx.conc(k)
    ic = sx.conc(ic)  # inner chunk and shard sizes forked by value: keeps the arithmetic linear
    sh = ic * k_
    if sx.conc(use_region) == 0:
        sx.assume(a == 0)
        target = G.ZStub((n,), (ic,), "float64", shards=(sh,))
        kw = {}
        info = {"shape": (n,), "target": target, "region": None}
    else:
        tn = -((-(a + n)) // sh) * sh
        target = G.ZStub((tn,), (ic,), "float64", shards=(sh,))
        kw = {"regions": (slice(a, a + n),)}
        info = {"shape": (tn,), "target": target, "region": (a, a + n)}
    x = G.stub_array("x", (n,), (c,))
    with warnings.catch_warnings():
        warnings.simplefilter("ignore")
        (out,) = cubed.store([x], [target], compute=False, **kw)
    return out, info


def b_store_path(n, c):
    """to_zarr to a path: target created lazily with the source's chunking"""
    import cubed

    c01._start()
    sx.assume(c <= n)
    x = G.stub_array("x", (n,), (c,))
    y = c01._xp().negative(x)
    out = cubed.to_zarr(y, "/nonexistent-verif/target.zarr", compute=False)
    return out, {"shape": (n,), "region": None}


def b_store_sharded(n, c, sh):
    """store into an existing array whose shard size differs from the source chunks: must be rechunked to the shards"""
    import warnings

    import cubed

    c01._start()
    sx.assume(c <= n)
    sx.assume(sh <= n)
    x = G.stub_array("x", (n,), (c,))
    target = G.ZStub((n,), (sh,), "float64", shards=(sh,))
    with warnings.catch_warnings():
        warnings.simplefilter("ignore")
        (out,) = cubed.store([x], [target], compute=False)
    return out, {"shape": (n,), "target": target, "region": None}
