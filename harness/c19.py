"""C19 -- acceptance and results do not depend on how resources are configured.

Every public entry point discovered by calling the API on metadata arrays (one-array and two-array functions, plus
manual entries for operators, indexing, pad, rechunk, nan-functions, map_blocks, apply_gufunc, store, and calls that mix a
cubed operand with a numpy array or Python scalar in every position) is built under
an EXPLICIT Spec whose allowed_mem / reserved_mem are solver variables and whose work_dir / compressor / executor /
storage_options are varied: the construction must be accepted exactly as under the default configuration (no
'Arrays must have same spec' from a helper array created without the operands' spec), must record the same operation
geometry (num_tasks, write chunks, shapes), and compressor / work_dir may only influence buffer copies (projected
memory) and store locations.
"""
from __future__ import annotations

import warnings

from engine import sx
from engine.obligation import Obl
from geom import backend as G
from harness import entrypoints as EP

EXPLANATION = (
    "bounded symbolic execution (sx/z3) of every discovered public entry point on metadata arrays under an explicit Spec with symbolic "
    "memory settings and varied non-memory fields, compared with the construction under the default configuration"
)
TRUSTED_BASE = ["geom backend (metadata arrays)", "entry-point discovery by calling the public API (harness/entrypoints.py)"]
ASSUMPTIONS = ["value equality across real stores/codecs is outside (C01 decides values for the geometry recorded here)",
               "allowed_mem is taken large enough for the plan: acceptance at build time does not depend on it (admission is C04's subject)"]

_ONE = _TWO = _MIX = None


def entry_points():
    global _ONE, _TWO, _MIX
    if _ONE is None:
        with warnings.catch_warnings():
            warnings.simplefilter("ignore")
            # take() evaluates its index argument eagerly (a real computation): exempt by the property statement
            _ONE = [n for n in EP.discover_one_array_entry_points() if n != "take"]
            _TWO = EP.discover_two_array_entry_points()
            _MIX = EP.discover_mixed_entry_points()
    return _ONE, _TWO, _MIX


def geometry(res):
    """what the plan records that must not depend on the resource configuration"""
    import networkx as nx

    outs = res if isinstance(res, (tuple, list)) else (res,)
    dags = [o._plan.dag for o in outs if hasattr(o, "_plan")]
    if not dags:
        return None
    dag = nx.compose_all(dags)
    sig = []
    for opname, op in G.all_ops(dag):
        sig.append((tuple(op.write_chunks) if op.write_chunks is not None else None, op.num_tasks, op.fusable_with_predecessors, op.fusable_with_successors))
    shapes = [(tuple(o.shape), tuple(o.chunks), str(o.dtype)) for o in outs if hasattr(o, "shape")]
    return sorted(sig, key=repr), shapes


def _build(kind, name, spec, spec_y=None):
    G.reset_names()
    with warnings.catch_warnings():
        warnings.simplefilter("ignore")
        if kind == 3:
            return EP.call_mixed(name, EP._arr("x", spec))
        if kind == 1:
            last = None
            for d in ("float64", "int64", "bool"):
                try:
                    return EP.call_one(name, EP._arr("x", spec, d))
                except TypeError as ex:
                    last = ex
            raise last
        sy = spec if spec_y is None else spec_y
        return EP.call_two(name, lambda d, s=(4,), c=(2,): EP._arr("x", spec, d, s, c), lambda d, s=(4,), c=(2,): EP._arr("y", sy, d, s, c))


def config_independent(kind, name, A, R, variant, fresh=0):
    import cubed

    sx.assume(R <= A)
    sx.assume(A - R >= 10**5)  # "as long as the allowed memory suffices for the plan" (the plans here need < 1 kB)
    v = sx.conc(variant)
    base = _build(kind, name, EP.config_spec())
    g0 = geometry(base)

    def mk():
        return cubed.Spec(work_dir=[None, "/nonexistent-verif", "s3://bucket/verif", None, None][v], allowed_mem=A, reserved_mem=R,
                          zarr_compressor=["auto", "auto", "auto", None, "auto"][v], executor_name=[None, None, None, None, "single-threaded"][v])

    spec = mk()
    # "an explicitly passed Spec with equal settings": the second operand may carry ANOTHER Spec object with the same settings
    spec_y = mk() if (kind == 2 and sx.conc(fresh) == 1) else None
    try:
        r = _build(kind, name, spec, spec_y)
    except ValueError as ex:
        raise sx.Violated("rejected-under-an-explicit-spec-but-accepted-under-the-default-configuration", f"{name}: {str(ex)[:200]}") from ex
    g1 = geometry(r)
    sx.require(g0 == g1, "recorded-geometry-depends-on-the-resource-configuration", f"{name}: {g0} vs {g1}")
    outs = r if isinstance(r, (tuple, list)) else (r,)
    for o in outs:
        if not hasattr(o, "_plan"):
            continue
        sx.require(o.spec is spec or (spec_y is not None and (o.spec is spec_y or o.spec == spec)), "result-array-does-not-carry-the-operands-spec", name)
        for opname, op in G.all_ops(o._plan.dag):
            sx.require(op.allowed_mem == A and op.reserved_mem == R, "operation-does-not-use-the-explicit-spec's-memory-settings", f"{name}/{opname}: {op.allowed_mem}, {op.reserved_mem}")
            sx.require(op.projected_mem >= R, "projected-memory-does-not-include-reserved-memory", f"{name}/{opname}")


def default_equal_explicit(name, swap):
    """one operand built under the default configuration, the other under an explicit Spec whose settings EQUAL the configuration's:
    accepted exactly as two default-configuration operands are, with the same recorded geometry"""
    import cubed

    base = _build(2, name, EP.config_spec())
    g0 = geometry(base)
    d = EP.config_spec()
    explicit = cubed.Spec(work_dir=d.work_dir, allowed_mem=d.allowed_mem, reserved_mem=d.reserved_mem, executor_name=d.executor_name, executor_options=d.executor_options,
                          storage_options=d.storage_options, zarr_compressor=d.zarr_compressor, intermediate_store=d.intermediate_store)
    sx.require(explicit == d, "harness: explicit spec does not equal the configuration's")
    sw = sx.conc(swap)
    try:
        r = _build(2, name, explicit if sw else d, d if sw else explicit)
    except ValueError as ex:
        raise sx.Violated("rejected-under-an-equal-explicit-spec-but-accepted-under-the-default-configuration", f"{name}: {str(ex)[:200]}") from ex
    sx.require(geometry(r) == g0, "recorded-geometry-depends-on-the-resource-configuration", name)


def buffer_copies_h(wd):
    """only a cloud work_dir changes the buffer-copy model (2 read / 2 write copies), nothing else does"""
    import cubed
    from cubed.primitive.memory import get_buffer_copies

    w = [None, "/tmp/x", "file:///tmp/x", "s3://b/x", "gs://b/x", "az://b/x"][sx.conc(wd)]
    bc = get_buffer_copies(cubed.Spec(work_dir=w, allowed_mem=1000))
    cloud = w is not None and (w.startswith("s3://") or w.startswith("gs://"))
    sx.require((bc.read, bc.write) == ((2, 2) if cloud else (1, 1)), "buffer-copies-do-not-follow-the-documented-rule", f"{w}: {bc}")
    sx.require(get_buffer_copies(None).read == 1, "buffer-copies-for-no-spec")


def obligations(tier):
    import cubed.array_api.creation_functions as cf
    import cubed.array_api.searching_functions as sf
    import cubed.core.array as ca
    import cubed.core.ops as ops
    import cubed.primitive.memory as pm
    import cubed.spec as cs

    one, two, mixed = entry_points()
    fns = [ca.CoreArray.__init__, ca.check_array_specs, cs.spec_from_config, ops.map_blocks, ops.general_blockwise, ops.blockwise, cf.asarray, cf.empty_virtual_array,
           cf._tri_mask, cf._like_args, sf.searchsorted, pm.get_buffer_copies]
    wall = 600 if tier == "quick" else 3000
    V = [("A", 0, 10**12), ("R", 0, 10**12), ("variant", 0, 4)]
    o = []
    for kind, names in ((1, one), (2, two), (3, mixed)):
        for nm in names:
            o.append(Obl(f"config[{nm}/{kind}]", (lambda kind, nm: lambda **kw: config_independent(kind, nm, **kw))(kind, nm), V + ([("fresh", 0, 1)] if kind == 2 else []), setup=G.install, functions=fns, wall_s=wall,
                         bounds="explicit Spec with symbolic allowed_mem / reserved_mem (up to 1e12) and 5 variants of work_dir (none, local, cloud) / compressor (auto, none) / executor, versus the default configuration",
                         outside="values across real stores and codecs; intermediate_store objects", stubs=["geom metadata arrays"], witness_rule=lambda m: m["variant"] != 0))
    for nm in two:
        o.append(Obl(f"default+equal-explicit[{nm}]", (lambda nm: lambda **kw: default_equal_explicit(nm, **kw))(nm), [("swap", 0, 1)], setup=G.install, functions=fns, wall_s=wall,
                     bounds="one operand under the default configuration, the other under an explicit Spec object with the configuration's settings, in either position",
                     outside="values", stubs=["geom metadata arrays"]))
    o.append(Obl("buffer-copies", buffer_copies_h, [("wd", 0, 5)], functions=[pm.get_buffer_copies], wall_s=60, bounds="work_dir in {None, local path, file://, s3://, gs://, az://}"))
    return o
