"""C20 -- serialized arrays compute the same and are never confused with other arrays (name-identity part).

Names are the identity of arrays and operations when plans are merged (arrays_to_dag -> nx.compose_all) and when
read/write proxies are looked up.  Decided here, on the real code:
 * the three gensym functions (core/array.py, core/plan.py, primitive/blockwise.py): names drawn in one process are
   pairwise distinct (the counter strictly increases and the formatting is injective, incl. >= 1000);
 * two arrays built in two processes -- modelled as the real construction path run twice with independent, symbolic
   counter states (how many arrays/ops each process had created before) -- and then combined in one expression are not
   mistaken for one another: the provenance of the combined result names both operands.
"""
from __future__ import annotations

from engine import sx
from engine.obligation import Obl
from geom import backend as G
from stubs import anp

EXPLANATION = (
    "symbolic execution (sx/z3) of the real name generators and of the real plan merge: the counter states of the two processes are "
    "solver variables; the merged real plan is evaluated on abstract blocks and must name both operands"
)
TRUSTED_BASE = ["geom backend", "a second process is modelled by independent values of the module-level name counters (the only process state names depend on)"]
ASSUMPTIONS = ["cloudpickle fidelity and value equality after a real round-trip are C-level and outside; the public two-process scenario is run as replay of counterexamples"]


def _set_counters(ka, kp, kb):
    import cubed.core.array as ca
    import cubed.core.plan as cp
    import cubed.primitive.blockwise as pb

    ca.sym_counter = sx.conc(ka)
    cp.sym_counter = sx.conc(kp)
    pb.sym_counter = sx.conc(kb)


def gensym_injective(c, which):
    """the name drawn at counter state c determines c (left inverse exists) and the counter increases by one"""
    import cubed.core.array as ca
    import cubed.core.plan as cp
    import cubed.primitive.blockwise as pb

    sx.MAX_FORK_VALUES = 50000
    mod, call = [(ca, lambda: ca.gensym()), (cp, lambda: cp.gensym()), (pb, lambda: pb.gensym("apply_blockwise"))][sx.conc(which)]
    c_ = sx.conc(c)
    mod.sym_counter = c_
    n1 = call()
    n2 = call()
    sx.require(mod.sym_counter == c_ + 2, "counter-does-not-increase-by-one")
    sx.require(n1 != n2, "two-consecutive-names-equal")
    sx.require(int(n1.rsplit("-", 1)[1]) == c_ + 1 and int(n2.rsplit("-", 1)[1]) == c_ + 2, "name-does-not-determine-the-counter", f"{n1} {n2}")
    sx.require(n1.rsplit("-", 1)[0] == n2.rsplit("-", 1)[0], "prefix-changed")


def two_processes(k1, k2, e):
    """array a built in process 1 after k1 other arrays, array b built in process 2 after k2 other arrays; a is shipped to
    process 2 and combined with b there.  Each process starts with fresh name counters (the only process state names
    depend on) and advances them by really building arrays."""
    import cubed.array_api as xp

    G.install()
    G.reset_names()  # process 1 starts
    x = G.stub_array("x", (4,), (2,))
    for _ in range(sx.conc(k1)):
        xp.negative(x)
    a = xp.negative(x)
    G.reset_names()  # process 2 starts (its own counters)
    y = G.stub_array("y", (4,), (2,))
    for _ in range(sx.conc(k2)):
        xp.negative(y)
    b = xp.abs(y)
    out = xp.subtract(a, b)
    sx.assume(e < 4)
    sx.require(a.name != b.name and a.name != out.name and b.name != out.name, "distinct-arrays-share-a-name", f"{a.name} {b.name} {out.name}")
    opnames = [n for n, d in out._plan.dag.nodes(data=True) if d.get("type") == "op" and "primitive_op" in d]
    sx.require(len(opnames) == 3, "distinct-operations-share-a-name", f"{sorted(opnames)}")
    ev = G.Evaluator(out._plan.dag)
    t = ev.elem_of(out.name, (e,))
    want = ("fn", "subtract", (("fn", "negative", (("elem", "x", (e,)),)), ("fn", "abs", (("elem", "y", (e,)),))))
    sx.require(anp.terms_equal(t, want), "distinct-arrays-mistaken-for-one-another", f"got {t}")


def shipped_alone(k1, k2, e, fin):
    """process 2 has built (and planned / finalized) its own array b; an array a built by the same kind of program in process 1 is
    shipped in and planned ON ITS OWN: nothing is merged, so whatever names a and b share, the plan made for a must be a's plan --
    its own storage, its own source, its own operation -- never something remembered from planning b"""
    import cubed.array_api as xp
    from cubed.core.plan import arrays_to_plan

    G.install()
    G.reset_names()  # process 1
    x = G.stub_array("x", (4,), (2,))
    for _ in range(sx.conc(k1)):
        xp.negative(x)
    a = xp.negative(x)
    G.reset_names()  # process 2: the same kind of program, so the same generated names (the leaf, too, is called "x" in both)
    y = G.stub_array("x", (4,), (2,))
    for _ in range(sx.conc(k2)):
        xp.negative(y)
    b = xp.abs(y)
    f = sx.conc(fin)
    pb_ = arrays_to_plan(b)
    if f >= 1:
        pb_._finalize(optimize_graph=(f == 2))  # b.plan() / b.visualize() / b.compute() all finalize
    pa = arrays_to_plan(a)
    fa = pa._finalize(optimize_graph=(f == 2))
    sx.assume(e < 4)
    dag = fa.dag
    sx.require(a.name in dag, "plan-of-the-shipped-array-does-not-contain-it", a.name)
    tgt = dag.nodes[a.name].get("target")
    sx.require(tgt is a._zarray, "plan-of-the-shipped-array-uses-another-array's-storage", f"{a.name}: target {tgt!r} is not the shipped array's own")
    ev = G.Evaluator(dag)
    t = ev.elem_of(a.name, (e,))
    sx.require(anp.terms_equal(t, ("fn", "negative", (("elem", "x", (e,)),))), "shipped-array-computes-another-array's-values", f"got {t}")


def public_replay(model):
    """the two-process scenario through the public API with real cloudpickle and real computation"""
    import subprocess
    import sys
    import tempfile
    import textwrap

    k1, k2 = model["k1"], model["k2"]
    child = textwrap.dedent(f"""
        import sys, cloudpickle, numpy as np, cubed, cubed.array_api as xp
        spec = cubed.Spec(allowed_mem=10**8)
        x = xp.asarray(np.arange(4.0), chunks=2, spec=spec)
        for _ in range({k1}):
            xp.negative(x)
        a = xp.negative(x)
        sys.stdout.buffer.write(cloudpickle.dumps(a))
    """)
    p = subprocess.run([sys.executable, "-c", child], capture_output=True, cwd=tempfile.gettempdir())
    if p.returncode != 0:
        return None, "child failed: " + p.stderr.decode()[-300:]
    import cloudpickle
    import numpy as np

    import cubed
    import cubed.array_api as xp

    spec = cubed.Spec(allowed_mem=10**8)
    y = xp.asarray(np.arange(4.0) * 10 + 100, chunks=2, spec=spec)
    for _ in range(k2):
        xp.negative(y)
    a = cloudpickle.loads(p.stdout)
    b = xp.abs(y)
    try:
        got = xp.subtract(a, b).compute(executor=cubed.runtime.create.create_executor("single-threaded"))
    except Exception as ex:  # noqa: BLE001
        return True, f"combining the shipped array with a local one failed: {type(ex).__name__}: {str(ex)[:200]}"
    want = -np.arange(4.0) - np.abs(np.arange(4.0) * 10 + 100)
    if not np.array_equal(got, want):
        return True, f"wrong operand read: got {got.tolist()} want {want.tolist()}"
    return False, "values equal"


def obligations(tier):
    import cubed.core.array as ca
    import cubed.core.plan as cp
    import cubed.primitive.blockwise as pb

    wall = 600 if tier == "quick" else 3000
    K = 4 if tier == "quick" else 8
    o = []
    o.append(Obl("gensym-injective", gensym_injective, [("c", 0, 1100 if tier == "quick" else 2500), ("which", 0, 2)], functions=[ca.gensym, cp.gensym, pb.gensym], wall_s=wall,
                 bounds="counter states 0..1100 (10500): includes the 999 -> 1000 width change (value-forked: the formatting is a C-level str.format)"))
    o.append(Obl("two-processes", two_processes, [("k1", 0, K), ("k2", 0, K), ("e", 0, 3)],
                 functions=[ca.gensym, cp.gensym, pb.gensym, cp.Plan._new, cp.arrays_to_dag, pb.general_blockwise, pb.fuse_blockwise_specs], wall_s=wall,
                 bounds=f"each process had built 0..{K} other arrays before; one shipped array combined with one local array",
                 outside="pickle fidelity; deeper shared ancestry", stubs=["geom"], public_replay=public_replay, witness_rule=lambda m: True))
    o.append(Obl("shipped-alone", shipped_alone, [("k1", 0, K), ("k2", 0, K), ("e", 0, 3), ("fin", 0, 2)],
                 functions=[ca.gensym, cp.gensym, pb.gensym, cp.Plan._new, cp.arrays_to_plan, cp.Plan._finalize], wall_s=wall,
                 bounds=f"each process had built 0..{K} other arrays before; the receiving process has planned / finalized (with and without optimization) its own array first; "
                        "the shipped array is then finalized on its own",
                 outside="pickle fidelity", stubs=["geom"], witness_rule=lambda m: m["k1"] == m["k2"] and m["fin"] >= 1))
    return o
