"""C05 -- every stored chunk has exactly one writer task, written whole; outputs covered.

Per-dimension grid lemma (write regions are products of per-dimension slices from get_item, so the lemma per
dimension suffices): every boundary of the task (write) grid is a boundary of the storage grid, both tile
[0, n), and the task iterable enumerates every write cell exactly once.  Decided on the real plans produced
by the real construction path for symbolic shapes, source/target chunk sizes, memory budgets (which determine
rechunk copy chunks), allow_irregular, existing targets with their own chunking / shard size, and regions.
"""
from __future__ import annotations

from engine import sx
from engine.obligation import Obl
from geom import backend as G
from harness import c01
from harness import storegeom as SG

EXPLANATION = (
    "bounded symbolic execution (sx/z3) of the real construction path of rechunk / store / to_zarr and the operation catalogue: "
    "for a symbolic position p, 'p is a task-grid boundary implies p is a storage-grid boundary' is decided for every operation of "
    "the resulting real plan (regular and rectilinear storage grids), together with coverage and task enumeration"
)
TRUSTED_BASE = c01.TRUSTED_BASE
ASSUMPTIONS = ["atomicity of one key write is the storage contract; what Zarr does inside one __setitem__ and sharding codec internals are outside"]


def _mk(builder, keys, pkeys=("p0", "p1")):
    def h(**kw):
        out, info = builder(**{k: kw[k] for k in keys})
        outs = out if isinstance(out, (tuple, list)) else (out,)
        for o in outs:
            n_ops = SG.grid_lemma(o._plan.dag, [kw[k] for k in pkeys if k in kw])
            sx.note(("ops", n_ops))
            SG.counts_lemma(o._plan.dag)

    return h


def _catalogue(name):
    fn, _ = c01.SCENARIOS[name]

    def h(**kw):
        p = [kw.pop("p0"), kw.pop("p1")]
        captured = {}
        orig = c01._declared_ok

        def hook(out, shape):
            captured["out"] = out
            raise c01._Done()

        c01._declared_ok = hook
        c01.MODE = "route"
        try:
            try:
                fn(**kw)
            except c01._Done:
                pass
        finally:
            c01._declared_ok = orig
        out = captured.get("out")
        if out is None:
            return
        SG.grid_lemma(out._plan.dag, p)
        SG.counts_lemma(out._plan.dag)

    return h


def chunkkeys_range(nb0, nb1, start, stop):
    """ChunkKeys.range(start, stop) equals the corresponding slice of itertools.product"""
    import itertools

    from cubed.primitive.blockwise import ChunkKeys

    sx.assume(start <= stop)
    ck = ChunkKeys(((1,) * sx.conc(nb0), (1,) * sx.conc(nb1)))
    full = list(map(list, itertools.product(range(sx.conc(nb0)), range(sx.conc(nb1)))))
    sx.require(list(ck) == full, "ChunkKeys-iteration-differs-from-product")
    got = list(ck.range(start, stop))
    want = full[sx.conc(start):sx.conc(stop)]
    sx.require(got == want, "ChunkKeys.range-differs-from-slice", f"{got} vs {want}")
    got2 = list(ck.range(start))
    sx.require(got2 == full[sx.conc(start):], "ChunkKeys.range-open-differs-from-slice")


def create_opens_declared_grid(struct, sub, ex, esh, ech, edt):
    """the create-arrays task for an array declared with shape (4,), chunks (2,) on a store that ALREADY holds an array at the path
    (to_zarr onto an existing path; a work directory that is reused): the array the tasks will write through must have the
    declared shape, chunk grid and dtype -- or the computation must stop with an explicit error before any chunk is written.
    Otherwise the tasks' write regions (declared grid) cut the stored chunks: several writers per stored chunk."""
    import numpy as np

    import cubed.storage.stores.zarr_python_v3 as zv3
    from cubed.core.plan import create_zarr_arrays
    from cubed.storage.zarr import lazy_zarr_array
    from stubs import zarr_model as zm

    st, sb = sx.conc(struct), sx.conc(sub)
    path = [None, "sub"][sb]
    root = zm._join(path)
    fields = ["n", "total"] if st else []
    dtype = np.dtype([("n", "i8"), ("total", "f8")]) if st else np.dtype("float64")
    pre_shape = (sx.conc(esh),)
    pre_chunks = (sx.conc(ech),)
    nodes = {}
    arrays = [zm._join(root, f) for f in fields] if st else [root]
    if st:
        nodes[root] = zm.Node("group", None, ex == 1)
    for i, p in enumerate(arrays):
        fdt = dtype.fields[fields[i]][0] if st else dtype
        pre_dt = fdt if sx.conc(edt) == 0 else np.dtype("int32")
        nodes[p] = zm.Node("array", "written", ex == 1, dict(shape=pre_shape, dtype=pre_dt, chunks=pre_chunks))
    model = zm.ZarrModel(nodes)
    lza = lazy_zarr_array("memory://verif", (4,), dtype, (2,), path=path, compressors=None)
    op = create_zarr_arrays([lza], 10**6, 100)
    saved = zv3.zarr
    zv3.zarr = model
    try:
        try:
            for m in op.pipeline.mappable:
                op.pipeline.function(m, config=op.pipeline.config)
        except ValueError:
            # explicit refusal: legitimate only if the existing array really differs from the declaration
            same = bool(ex == 1) and pre_shape == (4,) and pre_chunks == (2,) and sx.conc(edt) == 0
            sx.require(not same and bool(ex == 1), "create-task-refuses-a-store-state-left-by-an-earlier-execution", f"pre-state shape {pre_shape} chunks {pre_chunks}")
            return
        opened = lza.open()
        got = [opened[f] for f in fields] if st else [opened]
        for i, a in enumerate(got):
            fdt = dtype.fields[fields[i]][0] if st else dtype
            sx.require(tuple(a.shape) == (4,), "tasks-write-through-an-array-of-another-shape-than-declared", f"{arrays[i]}: stored shape {a.shape}, declared (4,)")
            sx.require(tuple(a.chunks) == (2,), "tasks-write-through-an-array-with-another-chunk-grid-than-declared",
                       f"{arrays[i]}: stored chunks {a.chunks}, declared (2,): the tasks' write regions cut stored chunks")
            sx.require(np.dtype(a.dtype) == fdt, "tasks-write-through-an-array-of-another-dtype-than-declared", f"{arrays[i]}: stored {a.dtype}, declared {fdt}")
    finally:
        zv3.zarr = saved


def _zm_validate():
    from stubs import zarr_model as zm

    zm.validate()


def obligations(tier):
    import cubed.core.ops as ops
    import importlib

    cr = importlib.import_module("cubed.core.rechunk")
    import cubed.primitive.blockwise as pb
    import cubed.vendor.rechunker.algorithm as alg

    N = 8 if tier == "quick" else 14
    MM = 8 * N * 5 + 40
    wall = 600 if tier == "quick" else 3000
    fns = [ops._store_array, ops.store, ops.to_zarr, ops.rechunk, ops._rechunk_plan, ops._rechunk, ops.split_chunks, ops.split_chunksizes,
           ops.map_selection, cr._fix_copy_chunks, cr.multistage_regular_rechunking_plan, alg.multistage_rechunking_plan, alg.consolidate_chunks,
           alg._calculate_shared_chunks, pb.general_blockwise, pb.ChunkKeys, pb.product_from, pb.key_to_slices]
    P = [("p0", 0, N + 2), ("p1", 0, 5)]
    common = dict(allowed=SG.ALLOWED, setup=SG.setup, functions=fns, wall_s=wall,
                  stubs=["geom.ZStub targets/sources", "np integer kernels (arange/union1d/diff via real numpy on forked values)"],
                  outside="multi-stage rechunks (C14), >2 dims, sharding codec internals")
    obls = []
    for irr in (1, 0):
        obls.append(Obl(f"grid[rechunk-1d,allow_irregular={irr}]",
                        _mk(lambda n, c, c2, M, irr=irr: SG.b_rechunk_1d(n, c, c2, M, irr), ["n", "c", "c2", "M"]),
                        [("n", 1, N), ("c", 1, N), ("c2", 1, N), ("M", 0, MM)] + P[:1],
                        bounds=f"n, source chunk, target chunk <= {N}; allowed_mem 0..{MM} bytes (copy chunk between max(source,target) and n); position p",
                        witness_rule=lambda m: m["c"] != m["c2"], **common))
    T = 6 if tier == "quick" else 9
    for irr in ((0,) if tier == "quick" else (1, 0)):
        obls.append(Obl(f"grid[rechunk-2d-transpose-multistage,allow_irregular={irr}]",
                        _mk(lambda n, m, c, t, M, mn, irr=irr: SG.b_rechunk_2d_transpose(n, m, c, t, M, mn, irr), ["n", "m", "c", "t", "M", "mn"]),
                        [("n", T if tier == "quick" else 2, T), ("m", T if tier == "quick" else 2, T), ("c", 3 if tier == "quick" else 1, T), ("t", 1, 2 if tier == "quick" else T), ("M", 0, 40 if tier == "quick" else 60), ("mn", 0, 4 if tier == "quick" else 8)] + P,
                        bounds=f"(n, m) <= {T}x{T} int8 array, chunks (c, 1) -> (1, t), allowed_mem 0..60 and min_mem 0..8: tight budgets give multi-stage plans with intermediate arrays (geometry forked by value)",
                        witness_rule=lambda m: True, **common))
    n2 = 4 if tier == "quick" else 6
    for irr in ((1, 0) if tier != "quick" else ()):  # nonlinear in two dims: thorough tier only
        obls.append(Obl(f"grid[rechunk-2d,allow_irregular={irr}]",
                        _mk(lambda n, m, c, c2, d, d2, M, irr=irr: SG.b_rechunk_2d(n, m, c, c2, d, d2, M, irr), ["n", "m", "c", "c2", "d", "d2", "M"]),
                        [("n", 1, n2), ("m", 1, 2), ("c", 1, n2), ("c2", 1, n2), ("d", 1, 2), ("d2", 1, 2), ("M", 0, 8 * n2 * 2 * 5 + 40)] + P,
                        bounds=f"(n<= {n2}) x (m<=3) arrays, all chunkings, allowed_mem range covering every copy-chunk choice",
                        witness_rule=lambda m: m["c"] != m["c2"], **common))
    obls.append(Obl("grid[store-existing-target,leaf-source]", _mk(lambda n, c, tc, oreg: SG.b_store_whole(n, c, tc, 0, oreg), ["n", "c", "tc", "oreg"]),
                    [("n", 1, N), ("c", 1, N), ("tc", 1, N), ("oreg", 0, 1)] + P[:1], bounds=f"n, source chunk, target chunk <= {N}", witness_rule=lambda m: m["c"] != m["tc"], **common))
    obls.append(Obl("grid[store-existing-target,computed-source]", _mk(lambda n, c, tc, oreg: SG.b_store_whole(n, c, tc, 1, oreg), ["n", "c", "tc", "oreg"]),
                    [("n", 1, N), ("c", 1, N), ("tc", 1, N), ("oreg", 0, 1)] + P[:1], bounds=f"n, source chunk, target chunk <= {N}", witness_rule=lambda m: m["c"] != m["tc"], **common))
    obls.append(Obl("grid[store-region]", _mk(SG.b_store_region, ["n", "c", "tn", "tc", "a"]),
                    [("n", 1, 6), ("c", 1, 6), ("tn", 1, 9), ("tc", 1, 6), ("a", 0, 6)] + P[:1],
                    bounds=f"source n<= {N}, target length <= {N+4}, every region offset, source and target chunk sizes independent", witness_rule=lambda m: m["c"] != m["tc"], **common))
    obls.append(Obl("grid[to_zarr-path]", _mk(SG.b_store_path, ["n", "c"]), [("n", 1, N), ("c", 1, N)] + P[:1], bounds=f"n, chunk <= {N}", **common))
    obls.append(Obl("grid[store-sharded-target]", _mk(SG.b_store_sharded, ["n", "c", "sh"]), [("n", 1, N), ("c", 1, N), ("sh", 1, N)] + P[:1],
                    bounds=f"n, source chunk, shard size <= {N}", witness_rule=lambda m: m["c"] != m["sh"], **common))
    obls.append(Obl("grid[store-sharded-target,inner-chunks]", _mk(SG.b_store_sharded_inner, ["n", "c", "ic", "k", "a", "use_region"]),
                    [("n", 1, 6), ("c", 1, 6), ("ic", 1, 2), ("k", 1, 3), ("a", 0, 4), ("use_region", 0, 1)] + P[:1],
                    bounds="n, source chunk <= 6; inner chunks 1..2, shards of 1..3 inner chunks; whole store or a region at offset 0..4",
                    witness_rule=lambda m: m["k"] >= 2, **common))
    for name in ("sum", "concat", "index[slice]", "subtract[different-chunks]", "unstack", "repeat"):
        _, vs = c01.SCENARIOS[name]
        obls.append(Obl(f"grid[{name}]", _catalogue(name), vs(6) + P, bounds="as C01", **common))
    import cubed.core.plan as cpl
    import cubed.storage.stores.zarr_python_v3 as zv3
    import cubed.storage.zarr as csz

    obls.append(Obl("create-opens-declared-grid", create_opens_declared_grid, [("struct", 0, 1), ("sub", 0, 1), ("ex", 0, 1), ("esh", 3, 5), ("ech", 1, 3), ("edt", 0, 1)],
                    setup=_zm_validate, functions=[cpl.create_zarr_arrays, cpl.create_zarr_array, csz.LazyZarrArray.create, csz.LazyZarrArray.open, zv3.open_zarr_v3_array],
                    bounds="array declared (4,) / chunks (2,) (plain float64 and a 2-field structured dtype, root and sub-path); the store may already hold an array there with shape 3..5, "
                           "chunks 1..3, the declared or another dtype (existence is a solver variable)",
                    outside="what zarr itself does inside create_array/open_array (stubs/zarr_model.py, validated against the installed zarr)", stubs=["stubs/zarr_model.py"], wall_s=120,
                    witness_rule=lambda m: m["ex"] == 1 and (m["ech"] != 2 or m["esh"] != 4)))

    def ctwin(**kw):
        create_opens_declared_grid(**kw)
        if kw["ex"] == 1 and kw["ech"] == 2 and kw["esh"] == 4 and kw["edt"] == 0:
            raise sx.Violated("reached-end-on-a-matching-existing-array")

    obls.append(Obl("twin:create-opens-declared-grid", ctwin, [("struct", 0, 1), ("sub", 0, 1), ("ex", 0, 1), ("esh", 3, 5), ("ech", 1, 3), ("edt", 0, 1)], setup=_zm_validate,
                    twin_of="create-opens-declared-grid", wall_s=120))
    obls.append(Obl("chunkkeys.range", chunkkeys_range, [("nb0", 0, 3), ("nb1", 0, 4), ("start", 0, 13), ("stop", 0, 13)],
                    functions=[pb.ChunkKeys, pb.product_from], bounds="block grids up to 3x4, every start/stop", wall_s=wall))

    def twin(**kw):
        _mk(lambda n, c, c2, M: SG.b_rechunk_1d(n, c, c2, M, 1), ["n", "c", "c2", "M"])(**kw)
        if kw["c"] != kw["c2"]:
            raise sx.Violated("reached-end-with-different-chunks")

    obls.append(Obl("twin:grid[rechunk-1d]", twin, [("n", 1, N), ("c", 1, N), ("c2", 1, N), ("M", 0, MM)] + P[:1], allowed=SG.ALLOWED, setup=SG.setup,
                    twin_of="grid[rechunk-1d,allow_irregular=1]", wall_s=wall))
    return obls
