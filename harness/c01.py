"""C01 -- computed values equal NumPy's: decided for *block routing* (index provenance).

For each operation of the catalogue the real construction path runs on metadata-only arrays with symbolic
shape / chunk sizes / parameters (geom backend), then the real plan is evaluated on abstract blocks: the
real key functions select the input blocks, the real block functions run on abstract arrays (stubs/anp), and
for a symbolic output element the provenance term -- or, for reductions, the multiplicity with which every
source element contributes -- must equal what NumPy's definition of the operation says.
"""
from __future__ import annotations

from engine import sx
from engine.obligation import Obl
from geom import backend as G
from stubs import anp

EXPLANATION = (
    "bounded symbolic execution (sx/z3) of the real construction path and of the real task bodies (key function, "
    "map_nested, block function) on abstract arrays: array length, chunk sizes of each input, operation parameters and "
    "the output element index are solver variables; the provenance of the output element (which source elements reach "
    "it, with which multiplicity, in which argument position) is compared with the NumPy-level index map of the operation"
)
TRUSTED_BASE = [
    "stubs/anp.py (abstract NumPy: shape transfer + index routing of ~35 functions; validated against NumPy at check start)",
    "stubs/indexer_model.py (port of zarr's orthogonal indexer; validated against zarr at check start and on every concrete re-run)",
    "reference index maps in harness/c01.py (written from the NumPy definitions)",
]
ASSUMPTIONS = [
    "what NumPy computes on the values of a block (sum, mean, cast...) is an uninterpreted symbol; reductions are compared by the multiplicity of every source element (sum-like semantics)",
    "executors / optimisation on-off are the subject of C02/C06/C07",
]
ALLOWED = (ValueError, TypeError, NotImplementedError, IndexError)

# MODE "route": provenance oracle (C01).  MODE "tasks": after the build, one task of *every* operation of the plan is
# run at a symbolic block coordinate and the scenario stops there (C12 block shapes / C17 exception phases).
MODE = "route"
COORDS = ()


class _Done(Exception):
    pass


class Declined(NotImplementedError):
    """C01 only: cubed declined the expression at build time (which exception type it used is C17's subject)"""


def setup():
    G.install()
    n1 = indexer_model_validate()
    n2 = anp.validate()
    return n1, n2


def indexer_model_validate():
    from stubs import indexer_model

    return indexer_model.validate(5)


def anp_ns():
    """the abstract NumPy namespace the geom backend installs for block functions"""
    import cubed.core.ops as ops

    return ops.nxp


def _xp():
    import cubed.array_api as xp

    return xp


def _start():
    G.reset_names()


def wrap(fn, mode, allowed_assert):
    """scenario wrapper: sets the mode; in C01 an AssertionError *while building* counts as declined"""

    def h(**kw):
        global MODE, COORDS
        MODE = mode
        COORDS = tuple(kw.pop(k) for k in sorted(k for k in list(kw) if k.startswith("blk")))
        try:
            fn(**kw)
        except _Done:
            return
        except AssertionError as ex:
            if allowed_assert:
                raise Declined(f"AssertionError: {ex}") from ex
            raise

    h.__name__ = fn.__name__
    return h


def _elem(out, idx, dag=None):
    ev = G.Evaluator(dag if dag is not None else out._plan.dag)
    t = ev.elem_of(out.name, tuple(idx))
    if anp.has_uninit(t):
        raise sx.Violated("element-never-written", str(t))
    return t, ev


def _expect(t, want, label="wrong-provenance"):
    sx.require(anp.terms_equal(t, want), label, f"got {t} want {want}")


def _declared_ok(out, shape):
    """declared shape equals NumPy's and equals sum of chunks (C12 overlap)"""
    _declared_ok_(out, shape)
    if MODE == "tasks":
        _tasks((out,))


def _tasks(outs):
    import networkx as nx

    for o in outs:
        _metadata_ok(o)
    dag = nx.compose_all([o._plan.dag for o in outs])
    try:
        G.walk_tasks(dag, COORDS)
    except Exception as ex:  # noqa: BLE001 - an accepted plan must not fail once execution has started
        raise sx.Violated(f"failed-mid-run:{type(ex).__name__}", str(ex)[:300]) from ex
    raise _Done()


def _metadata_ok(out):
    """the lazy Zarr array backing `out` is created with the declared shape / chunk size / dtype"""
    z = out._zarray
    sx.require(len(z.shape) == len(out.shape) and all(bool(a == b) for a, b in zip(z.shape, out.shape)), "backing-array-shape-differs-from-declared", f"{z.shape} vs {out.shape}")
    sx.require(z.dtype == out.dtype, "backing-array-dtype-differs-from-declared", f"{z.dtype} vs {out.dtype}")
    zc = z.chunks
    if len(zc) and not isinstance(zc[0], (tuple, list)):
        for d in range(len(zc)):
            # every declared chunk boundary is a boundary of the backing grid or the array end
            sx.require(sx.sor(out.chunksize[d] == zc[d], out.shape[d] <= zc[d], out.chunksize[d] % zc[d] == 0), "backing-array-chunks-differ-from-declared", f"{zc} vs {out.chunks}")


def _declared_ok_(out, shape):
    sx.require(len(out.shape) == len(shape), "declared-rank-differs-from-numpy", f"{out.shape} vs {shape}")
    for a, b in zip(out.shape, shape):
        sx.require(a == b, "declared-shape-differs-from-numpy", f"{out.shape} vs {shape}")
    for d, ch in enumerate(out.chunks):
        tot = 0
        for c in ch:
            tot = tot + c
        sx.require(tot == out.shape[d], "chunks-do-not-add-up-to-shape", f"dim {d}: {out.chunks} vs {out.shape}")


# ---------------------------------------------------------------------------------------------
# scenarios (each: symbolic vars -> build with the real API -> oracle)
# ---------------------------------------------------------------------------------------------
def sc_negative(n, c, e):
    _start()
    sx.assume(c <= n)
    sx.assume(e < n)
    x = G.stub_array("x", (n,), (c,))
    out = _xp().negative(x)
    _declared_ok(out, (n,))
    t, _ = _elem(out, (e,))
    _expect(t, ("fn", "negative", (("elem", "x", (e,)),)))


def sc_add_same_chunks(n, c, e):
    _start()
    sx.assume(c <= n)
    sx.assume(e < n)
    x = G.stub_array("x", (n,), (c,))
    y = G.stub_array("y", (n,), (c,))
    out = _xp().subtract(x, y)
    _declared_ok(out, (n,))
    t, _ = _elem(out, (e,))
    _expect(t, ("fn", "subtract", (("elem", "x", (e,)), ("elem", "y", (e,)))))


def sc_add_broadcast_2d(n, m, c, c2, e, e2):
    """x (n, m) + y (m,) with broadcasting; y chunked like x's last axis"""
    _start()
    sx.assume(c <= n)
    sx.assume(c2 <= m)
    sx.assume(e < n)
    sx.assume(e2 < m)
    x = G.stub_array("x", (n, m), (c, c2))
    y = G.stub_array("y", (m,), (c2,))
    out = _xp().subtract(x, y)
    _declared_ok(out, (n, m))
    t, _ = _elem(out, (e, e2))
    _expect(t, ("fn", "subtract", (("elem", "x", (e, e2)), ("elem", "y", (e2,)))))


def sc_sum(n, c, s, j):
    _start()
    sx.assume(c <= n)
    sx.assume(j < n)
    x = G.stub_array("x", (n,), (c,))
    out = _xp().sum(x, split_every=s)
    _declared_ok(out, ())
    t, _ = _elem(out, ())
    m = anp.term_mult(t, ("x", (j,)))
    sx.require(m == 1, "source-element-not-counted-exactly-once", f"x[{j}] contributes {m} times")


def sc_sum_axis0_2d(n, m, c, c2, s, j, j2, e2):
    """sum over axis 0 of an (n, m) array: out[e2] gets x[j, e2] once and nothing else"""
    _start()
    sx.assume(c <= n)
    sx.assume(c2 <= m)
    sx.assume(j < n)
    sx.assume(j2 < m)
    sx.assume(e2 < m)
    x = G.stub_array("x", (n, m), (c, c2))
    out = _xp().sum(x, axis=0, split_every=s)
    _declared_ok(out, (m,))
    t, _ = _elem(out, (e2,))
    mlt = anp.term_mult(t, ("x", (j, j2)))
    want = sx.ite(j2 == e2, 1, 0)
    sx.require(mlt == want, "wrong-reduction-group", f"x[{j},{j2}] contributes {mlt} times to out[{e2}]")


def sc_mean(n, c, s, j):
    _start()
    sx.assume(c <= n)
    sx.assume(j < n)
    x = G.stub_array("x", (n,), (c,))
    out = _xp().mean(x, split_every=s)
    _declared_ok(out, ())
    t, _ = _elem(out, ())
    # out = divide(total, n): the `total` operand must contain every element once
    sx.require(t[0] == "fn" and t[1] == "divide", "mean-not-a-division", str(t))
    m = anp.term_mult(t[2][0], ("x", (j,)))
    sx.require(m == 1, "source-element-not-counted-exactly-once", f"x[{j}] contributes {m} times to the total")


def sc_index_slice(n, c, a, b, st, p):
    _start()
    sx.assume(c <= n)
    sx.assume(a <= n)
    sx.assume(b <= n)
    x = G.stub_array("x", (n,), (c,))
    out = x[a:b:st]
    a_, b_, st_ = sx.conc(a), sx.conc(b), sx.conc(st)
    length = len(range(a_, b_, st_))
    _declared_ok(out, (length,))
    sx.assume(p < length)
    t, _ = _elem(out, (p,))
    _expect(t, ("elem", "x", (a_ + p * st_,)))


def sc_index_int_2d(n, m, c, c2, i, e2):
    """x[i, :] integer index drops the axis"""
    _start()
    sx.assume(c <= n)
    sx.assume(c2 <= m)
    sx.assume(i < n)
    sx.assume(e2 < m)
    x = G.stub_array("x", (n, m), (c, c2))
    out = x[i, :]
    _declared_ok(out, (m,))
    t, _ = _elem(out, (e2,))
    _expect(t, ("elem", "x", (sx.conc(i), e2)))


def sc_index_int_negstep(n, m, c, c2, i, pos, e, e2):
    """an integer index combined with a negative-step slice on a 3-d array: x[i, ::-1, :] (pos=0), x[:, i, ::-1] (pos=1),
    x[::-1, :, i] (pos=2): the reversed axis is counted AFTER the integer-indexed dimension has been dropped"""
    _start()
    sx.assume(c <= n)
    sx.assume(c2 <= m)
    sx.assume(e < n)
    sx.assume(e2 < m)
    p = sx.conc(pos)
    i = sx.conc(i)
    if p == 0:
        x = G.stub_array("x", (2, n, m), (1, c, c2))
        out = x[i, ::-1, :]
        _declared_ok(out, (n, m))
        t, _ = _elem(out, (e, e2))
        _expect(t, ("elem", "x", (i, n - 1 - e, e2)))
    elif p == 1:
        x = G.stub_array("x", (n, 2, m), (c, 1, c2))
        out = x[:, i, ::-1]
        _declared_ok(out, (n, m))
        t, _ = _elem(out, (e, e2))
        _expect(t, ("elem", "x", (e, i, m - 1 - e2)))
    else:
        x = G.stub_array("x", (n, m, 2), (c, c2, 1))
        out = x[::-1, :, i]
        _declared_ok(out, (n, m))
        t, _ = _elem(out, (e, e2))
        _expect(t, ("elem", "x", (n - 1 - e, e2, i)))


def sc_concat(n1, n2, c, e):
    _start()
    sx.assume(c <= n1)
    sx.assume(c <= n2)
    x = G.stub_array("x", (n1,), (c,))
    y = G.stub_array("y", (n2,), (c,))
    out = _xp().concat([x, y])
    _declared_ok(out, (n1 + n2,))
    sx.assume(e < n1 + n2)
    t, _ = _elem(out, (e,))
    if e < n1:
        _expect(t, ("elem", "x", (e,)))
    else:
        _expect(t, ("elem", "y", (e - n1,)))


def sc_concat_diff_chunks(n1, n2, c1, c2, e):
    """inputs chunked differently from each other"""
    _start()
    sx.assume(c1 <= n1)
    sx.assume(c2 <= n2)
    x = G.stub_array("x", (n1,), (c1,))
    y = G.stub_array("y", (n2,), (c2,))
    out = _xp().concat([x, y])
    _declared_ok(out, (n1 + n2,))
    sx.assume(e < n1 + n2)
    t, _ = _elem(out, (e,))
    if e < n1:
        _expect(t, ("elem", "x", (e,)))
    else:
        _expect(t, ("elem", "y", (e - n1,)))


def sc_stack(n, c0, c1, k, e):
    _start()
    sx.assume(c0 <= n)
    sx.assume(c1 <= n)
    sx.assume(e < n)
    x = G.stub_array("x", (n,), (c0,))
    y = G.stub_array("y", (n,), (c1,))
    out = _xp().stack([x, y])
    _declared_ok(out, (2, n))
    t, _ = _elem(out, (k, e))
    _expect(t, ("elem", "x" if sx.conc(k) == 0 else "y", (e,)))


def sc_stack_axis1(n, c, k, e):
    _start()
    sx.assume(c <= n)
    sx.assume(e < n)
    x = G.stub_array("x", (n,), (c,))
    y = G.stub_array("y", (n,), (c,))
    out = _xp().stack([x, y], axis=1)
    _declared_ok(out, (n, 2))
    t, _ = _elem(out, (e, k))
    _expect(t, ("elem", "x" if sx.conc(k) == 0 else "y", (e,)))


def sc_expand_squeeze(n, c, e):
    _start()
    sx.assume(c <= n)
    sx.assume(e < n)
    x = G.stub_array("x", (n,), (c,))
    y = _xp().expand_dims(x, axis=0)
    _declared_ok(y, (1, n))
    out = _xp().squeeze(y, axis=0)
    _declared_ok(out, (n,))
    t, _ = _elem(out, (e,))
    _expect(t, ("elem", "x", (e,)))


def sc_repeat(n, c, r, e):
    _start()
    sx.assume(c <= n)
    x = G.stub_array("x", (n,), (c,))
    out = _xp().repeat(x, sx.conc(r))
    _declared_ok(out, (n * r,))
    sx.assume(e < n * r)
    t, _ = _elem(out, (e,))
    _expect(t, ("elem", "x", (e // r,)))


def sc_flip(n, c, e):
    _start()
    sx.assume(c <= n)
    sx.assume(e < n)
    x = G.stub_array("x", (n,), (c,))
    out = _xp().flip(x)
    _declared_ok(out, (n,))
    t, _ = _elem(out, (e,))
    _expect(t, ("elem", "x", (n - 1 - e,)))


def sc_cumsum(n, c, e, j):
    _start()
    sx.assume(c <= n)
    sx.assume(e < n)
    sx.assume(j < n)
    x = G.stub_array("x", (n,), (c,))
    out = _xp().cumulative_sum(x, axis=0)
    _declared_ok(out, (n,))
    t, _ = _elem(out, (e,))
    m = anp.term_mult(t, ("x", (j,)))
    sx.require(m == sx.ite(j <= e, 1, 0), "wrong-prefix", f"x[{j}] contributes {m} times to out[{e}]")


def sc_roll(n, c, sh, e):
    _start()
    sx.assume(c <= n)
    sx.assume(e < n)
    x = G.stub_array("x", (n,), (c,))
    out = _xp().roll(x, sx.conc(sh))
    _declared_ok(out, (n,))
    t, _ = _elem(out, (e,))
    _expect(t, ("elem", "x", ((e - sh) % n,)))


def sc_add_astype_narrow(n, c, e):
    """add(astype(x, int8), astype(y, int8)): two narrowing predecessors fused into the addition"""
    _start()
    sx.assume(c <= n)
    sx.assume(e < n)
    xp = _xp()
    x = G.stub_array("x", (n,), (c,))
    y = G.stub_array("y", (n,), (c,))
    out = xp.add(xp.astype(x, xp.int8), xp.astype(y, xp.int8))
    _declared_ok(out, (n,))
    t, _ = _elem(out, (e,))
    sx.require(t[0] == "fn" and t[1] == "add", "not-an-addition", str(t))
    sx.require(anp.term_mult(t, ("x", (e,))) == 1 and anp.term_mult(t, ("y", (e,))) == 1, "wrong-operands", str(t))


def sc_unstack(n, c, w, e):
    """unstack a (3, n) array along axis 0 (3 blocks of one row)"""
    _start()
    sx.assume(c <= n)
    sx.assume(e < n)
    x = G.stub_array("x", (3, n), (1, c))
    outs = _xp().unstack(x, axis=0)
    sx.require(len(outs) == 3, "wrong-number-of-outputs")
    w_ = sx.conc(w)
    out = outs[w_]
    _declared_ok(out, (n,))
    t, _ = _elem(out, (e,))
    _expect(t, ("elem", "x", (w_, e)))


def sc_unstack_one_block(n, c, w, e):
    """unstack a (3, n) array whose axis 0 is a single block of 3 rows"""
    _start()
    sx.assume(c <= n)
    sx.assume(e < n)
    x = G.stub_array("x", (3, n), (3, c))
    outs = _xp().unstack(x, axis=0)
    w_ = sx.conc(w)
    out = outs[w_]
    _declared_ok(out, (n,))
    t, _ = _elem(out, (e,))
    _expect(t, ("elem", "x", (w_, e)))


def sc_rechunk(n, c, c2, e):
    _start()
    sx.assume(c <= n)
    sx.assume(c2 <= n)
    sx.assume(e < n)
    x = G.stub_array("x", (n,), (c,))
    out = x.rechunk((c2,))
    _declared_ok(out, (n,))
    sx.require(out.chunksize[0] == c2, "rechunk-did-not-yield-requested-chunks", f"{out.chunks}")
    t, _ = _elem(out, (e,))
    _expect(t, ("elem", "x", (e,)))


def sc_add_diff_chunks(n, c, c2, e):
    """inputs chunked differently from each other: unify_chunks + implicit rechunk"""
    _start()
    sx.assume(c <= n)
    sx.assume(c2 <= n)
    sx.assume(e < n)
    x = G.stub_array("x", (n,), (c,))
    y = G.stub_array("y", (n,), (c2,))
    out = _xp().subtract(x, y)
    _declared_ok(out, (n,))
    t, _ = _elem(out, (e,))
    _expect(t, ("fn", "subtract", (("elem", "x", (e,)), ("elem", "y", (e,)))))


def sc_transpose(n, m, c, c2, e, e2):
    _start()
    sx.assume(c <= n)
    sx.assume(c2 <= m)
    sx.assume(e < m)
    sx.assume(e2 < n)
    x = G.stub_array("x", (n, m), (c, c2))
    out = _xp().permute_dims(x, (1, 0))
    _declared_ok(out, (m, n))
    t, _ = _elem(out, (e, e2))
    _expect(t, ("elem", "x", (e2, e)))


def sc_broadcast_to(n, c, k, e):
    _start()
    sx.assume(c <= n)
    sx.assume(e < n)
    x = G.stub_array("x", (n,), (c,))
    out = _xp().broadcast_to(x, (2, sx.conc(n)))
    _declared_ok(out, (2, n))
    t, _ = _elem(out, (k, e))
    sx.require(anp.term_mult(t, ("x", (e,))) == 1, "wrong-broadcast-source", str(t))


def sc_blocks_view(n, c, b, p):
    """x.blocks[b]: block b of x"""
    _start()
    sx.assume(c <= n)
    x = G.stub_array("x", (n,), (c,))
    nb = len(x.chunks[0])
    sx.assume(b < nb)
    b_ = sx.conc(b)
    out = x.blocks[b_]
    ln = x.chunks[0][b_]
    _declared_ok(out, (ln,))
    sx.assume(p < ln)
    t, _ = _elem(out, (p,))
    _expect(t, ("elem", "x", (b_ * c + p,)))


def sc_arange(a, n, st, c, e):
    """arange(a, a + n*st, st) in chunks of c: block starts via block ids delivered through the offsets array"""
    _start()
    sx.assume(c <= n)
    sx.assume(e < n)
    sx.assume(st != 0)
    import numpy as np

    out = _xp().arange(a, a + n * st, st, dtype=np.int64, chunks=(c,), spec=G.default_spec())
    _declared_ok(out, (n,))
    t, _ = _elem(out, (e,))
    _expect(t, ("val", "arange", a + e * st))


def sc_store_target(n, m, c, ct, e):
    """store(x, <existing target array>) without a region: x of length n in chunks of c, target of length m in chunks of ct"""
    _start()
    import cubed

    sx.assume(c <= n)
    sx.assume(ct <= m)
    sx.assume(e < n)
    x = G.stub_array("x", (n,), (c,))
    tgt = G.ZStub((m,), (ct,), "float64")
    (out,) = cubed.store([x], [tgt], compute=False)
    # accepted: NumPy's `target[...] = x` needs equal shapes, so anything else accepted here must at least run
    _declared_ok(out, (m,))
    sx.require(n == m, "store-accepts-a-target-of-another-shape", f"source ({n},) into target ({m},)")
    t, _ = _elem(out, (e,))
    _expect(t, ("elem", "x", (e,)))


def sc_eye(n, c, k, e0, e1):
    _start()
    sx.assume(c <= n)
    sx.assume(e0 < n)
    sx.assume(e1 < n)
    out = _xp().eye(sx.conc(n), k=sx.conc(k), chunks=(c, c), spec=G.default_spec())
    _declared_ok(out, (n, n))
    t, _ = _elem(out, (e0, e1))
    sx.require(t[0] == "val", "eye-block-is-not-an-eye-or-zero-block", str(t))
    sx.require(t[2] == sx.ite(e1 - e0 == k, 1, 0), "eye-diagonal-misplaced", f"out[{e0},{e1}] = {t[2]} (k={k})")


def sc_reshape_route(n, m, c, e):
    """reshape (n, m) -> (n*m,) with row chunks c and a single column chunk"""
    _start()
    sx.assume(c <= n)
    x = G.stub_array("x", (n, m), (c, m))
    n_, m_ = sx.conc(n), sx.conc(m)
    out = _xp().reshape(x, (n_ * m_,))
    _declared_ok(out, (n_ * m_,))
    sx.assume(e < n_ * m_)
    t, _ = _elem(out, (e,))
    _expect(t, ("elem", "x", (e // m_, e % m_)))


def sc_reshape_merge(n, m, c, c2, e):
    """reshape (n, m) -> (n*m,) with chunks (c, c2) on BOTH axes: accepted only for layouts whose merged chunks are regular"""
    _start()
    sx.assume(c <= n)
    sx.assume(c2 <= m)
    n_, m_, c_, c2_ = sx.conc(n), sx.conc(m), sx.conc(c), sx.conc(c2)
    x = G.stub_array("x", (n_, m_), (c_, c2_))
    out = _xp().reshape(x, (n_ * m_,))
    _declared_ok(out, (n_ * m_,))
    sx.assume(e < n_ * m_)
    t, _ = _elem(out, (e,))
    _expect(t, ("elem", "x", (e // m_, e % m_)))


def sc_reshape_split(n, c, k, e0, e1):
    """reshape (n,) -> (n // k, k) for k dividing n"""
    _start()
    sx.assume(c <= n)
    n_, c_, k_ = sx.conc(n), sx.conc(c), sx.conc(k)
    sx.assume(n_ % k_ == 0)
    x = G.stub_array("x", (n_,), (c_,))
    out = _xp().reshape(x, (n_ // k_, k_))
    _declared_ok(out, (n_ // k_, k_))
    sx.assume(e0 < n_ // k_)
    sx.assume(e1 < k_)
    t, _ = _elem(out, (e0, e1))
    _expect(t, ("elem", "x", (e0 * k_ + e1,)))


def sc_permute_3d(n, c, c2, perm, e0, e1, e2):
    """permute_dims / moveaxis of a (2, n, 3) array with a permutation that is NOT its own inverse: out[i] = x[j] with j[axes[k]] = i[k]"""
    _start()
    sx.assume(c <= n)
    axes = [(1, 2, 0), (2, 0, 1), (0, 2, 1), (2, 1, 0)][sx.conc(perm)]
    shape = (2, n, 3)
    x = G.stub_array("x", shape, (1, c, sx.conc(c2)))
    out = _xp().permute_dims(x, axes)
    oshape = tuple(shape[a] for a in axes)
    _declared_ok(out, oshape)
    i = (e0, e1, e2)
    for k in range(3):
        sx.assume(i[k] < oshape[k])
    j = [None, None, None]
    for k in range(3):
        j[axes[k]] = i[k]
    t, _ = _elem(out, i)
    _expect(t, ("elem", "x", tuple(j)))


def sc_qr(n, m, c):
    """tall-and-skinny QR: x (n, m) with row chunks c and a single column chunk"""
    _start()
    sx.assume(c <= n)
    x = G.stub_array("x", (n, m), (c, m))
    import cubed.array_api.linalg as la

    q, r = la.qr(x)
    _declared_ok_(q, (n, m))
    _declared_ok_(r, (m, m))
    if MODE == "tasks":
        _tasks((q, r))
    raise _Done()


def sc_reshape_2d_to_1d(n, m, c):
    _start()
    sx.assume(c <= n)
    x = G.stub_array("x", (n, m), (c, m))
    out = _xp().reshape(x, (sx.conc(n) * sx.conc(m),))
    _declared_ok(out, (n * m,))
    if MODE == "route":
        raise _Done()


def sc_matmul(n, k, m, c, ck, e0=0, e1=0, r0=0, r1=0, j=0):
    _start()
    sx.assume(c <= n)
    sx.assume(ck <= k)
    x = G.stub_array("x", (n, k), (c, ck))
    y = G.stub_array("y", (k, m), (ck, m))
    out = _xp().matmul(x, y)
    _declared_ok(out, (n, m))
    sx.assume(e0 < n)
    sx.assume(r0 < n)
    sx.assume(j < k)
    e1, r1 = sx.conc(e1), sx.conc(r1)
    sx.assume(e1 < m)
    sx.assume(r1 < m)
    # out[e0, e1] = sum_j x[e0, j] * y[j, e1]: every x[r0, j] / y[j, r1] enters once iff it lies in the row / column of the element
    t, _ = _elem(out, (e0, e1))
    mx = anp.term_mult(t, ("x", (r0, j)))
    my = anp.term_mult(t, ("y", (j, r1)))
    sx.require(mx == sx.ite(r0 == e0, 1, 0), "matmul-uses-the-wrong-row-of-the-first-operand", f"x[{r0},{j}] enters out[{e0},{e1}] {mx} times")
    sx.require(my == (1 if r1 == e1 else 0), "matmul-uses-the-wrong-column-of-the-second-operand", f"y[{j},{r1}] enters out[{e0},{e1}] {my} times")


def sc_tensordot(n, c, order):
    """tensordot contracting two axes; `order` selects ascending or descending listing of the first operand's axes"""
    _start()
    sx.assume(c <= n)
    x = G.stub_array("x", (4, n, 2), (2, c, 2))
    y = G.stub_array("y", (n, 2, 3), (c, 2, 3))
    axes = [((1, 2), (0, 1)), ((2, 1), (1, 0))][sx.conc(order)]
    out = _xp().tensordot(x, y, axes=axes)
    _declared_ok(out, (4, 3))
    if MODE == "route":
        raise _Done()


def sc_argmax(n, c, s, ax):
    _start()
    sx.assume(c <= n)
    x = G.stub_array("x", (n,), (c,))
    out = _xp().argmax(x, axis=[0, -1][sx.conc(ax)], split_every=s)
    _declared_ok(out, ())
    if MODE == "route":
        raise _Done()


_REDUCE_KINDS = {
    "sum-int32": ("int32", "sum"), "mean-float32": ("float32", "mean"), "sum-int8": ("int8", "sum"), "var-float32": ("float32", "var"), "var-float64": ("float64", "var"),
    "max-float32": ("float32", "max"), "prod-int8": ("int8", "prod"), "any-bool": ("bool", "any"),
}


def _sc_reduce_axis0(kind):
    """reductions over axis 0 of an (n, m) array, several with an intermediate dtype WIDER than the input's: sum of int32 / int8 (int64
    accumulator), mean of float32 ({n: int64, total: float64}), var -- with skinny chunks the reduced chunk is as large as the input
    chunk, so the projected memory of the first partial reduce depends on the intermediate dtype"""
    dt, fname = _REDUCE_KINDS[kind]

    def sc(n, m, c, c2, s):
        _start()
        sx.assume(c <= n)
        sx.assume(c2 <= m)
        xp = _xp()
        x = G.stub_array("x", (n, m), (c, c2), dtype=dt)
        out = getattr(xp, fname)(x, axis=0, split_every=s)
        _declared_ok(out, (m,))
        if MODE == "route":
            raise _Done()

    sc.__name__ = f"sc_reduce_axis0_{kind}"
    return sc


def _sc_reduce_1d(kind):
    """the same reductions over a 1-d array with chunks up to 24 elements: here the block function's own temporaries (e.g. var's
    `a - mu` and its square, at the accumulator dtype) dominate the reduced chunks"""
    dt, fname = _REDUCE_KINDS[kind]

    def sc(n, c, s):
        _start()
        sx.assume(c <= n)
        x = G.stub_array("x", (n,), (c,), dtype=dt)
        out = getattr(_xp(), fname)(x, split_every=s)
        _declared_ok(out, ())
        if MODE == "route":
            raise _Done()

    sc.__name__ = f"sc_reduce_1d_{kind}"
    return sc


def sc_index_stride_full(n, c, st, p):
    """x[::st] over the whole array: selection op + merge_chunks op (fused by the default optimizer)"""
    _start()
    sx.assume(c <= n)
    x = G.stub_array("x", (n,), (c,))
    st_ = sx.conc(st)
    out = x[::st_]
    length = len(range(0, sx.conc(n), st_))
    _declared_ok(out, (length,))
    sx.assume(p < length)
    t, _ = _elem(out, (p,))
    _expect(t, ("elem", "x", (p * st_,)))


def sc_pad(n, c, pl, pr, e):
    """pad(x, ((pl, pr),), mode='constant'): out[e] = x[e - pl] inside, a constant outside"""
    _start()
    import cubed

    sx.assume(c <= n)
    pl_, pr_ = sx.conc(pl), sx.conc(pr)
    x = G.stub_array("x", (n,), (c,))
    out = cubed.pad(x, ((pl_, pr_),), mode="constant")
    _declared_ok(out, (n + pl_ + pr_,))
    sx.assume(e < n + pl_ + pr_)
    t, _ = _elem(out, (e,))
    if sx.sand(e >= pl_, e < pl_ + n):
        _expect(t, ("elem", "x", (e - pl_,)))
    else:
        sx.require(t[0] == "const", "padding-is-not-a-constant", str(t))


def sc_diff(n, c, e):
    """diff(x): out[e] = x[e+1] - x[e]"""
    _start()
    sx.assume(c <= n)
    sx.assume(n >= 2)
    sx.assume(e < n - 1)
    x = G.stub_array("x", (n,), (c,))
    out = _xp().diff(x)
    _declared_ok(out, (n - 1,))
    t, _ = _elem(out, (e,))
    sx.require(t[0] == "fn" and t[1] == "subtract", "diff-is-not-a-subtraction", str(t))
    _expect(t[2][0], ("elem", "x", (e + 1,)), "wrong-minuend")
    _expect(t[2][1], ("elem", "x", (e,)), "wrong-subtrahend")


def sc_tile(n, c, r, e):
    _start()
    sx.assume(c <= n)
    r_ = sx.conc(r)
    x = G.stub_array("x", (n,), (c,))
    out = _xp().tile(x, (r_,))
    _declared_ok(out, (n * r_,))
    sx.assume(e < n * r_)
    t, _ = _elem(out, (e,))
    _expect(t, ("elem", "x", (e % n,)))


def sc_where(n, c, c2, e):
    """where(cond, x, y) with differently chunked operands"""
    _start()
    sx.assume(c <= n)
    sx.assume(c2 <= n)
    sx.assume(e < n)
    k = G.stub_array("k", (n,), (c,), dtype="bool")
    x = G.stub_array("x", (n,), (c2,))
    y = G.stub_array("y", (n,), (c,))
    out = _xp().where(k, x, y)
    _declared_ok(out, (n,))
    t, _ = _elem(out, (e,))
    sx.require(t[0] == "fn" and t[1] == "where", "not-a-where", str(t))
    _expect(t[2][0], ("elem", "k", (e,)), "wrong-condition")
    _expect(t[2][1], ("elem", "x", (e,)), "wrong-first-branch")
    _expect(t[2][2], ("elem", "y", (e,)), "wrong-second-branch")


def sc_moveaxis(n, m, c, c2, e, e2):
    _start()
    sx.assume(c <= n)
    sx.assume(c2 <= m)
    sx.assume(e < n)
    sx.assume(e2 < m)
    x = G.stub_array("x", (n, m), (c, c2))
    out = _xp().moveaxis(x, 0, 1)
    _declared_ok(out, (m, n))
    t, _ = _elem(out, (e2, e))
    _expect(t, ("elem", "x", (e, e2)))


def sc_outer(n, m, c, c2, e, e2):
    _start()
    sx.assume(c <= n)
    sx.assume(c2 <= m)
    sx.assume(e < n)
    sx.assume(e2 < m)
    from cubed.array_api.linalg import outer

    x = G.stub_array("x", (n,), (c,))
    y = G.stub_array("y", (m,), (c2,))
    out = outer(x, y)
    _declared_ok(out, (n, m))
    t, _ = _elem(out, (e, e2))
    sx.require(t[0] == "fn" and t[1] == "multiply", "outer-is-not-a-product", str(t))
    sx.require(anp.term_mult(t, ("x", (e,))) == 1 and anp.term_mult(t, ("y", (e2,))) == 1, "wrong-factors", str(t))


def sc_vecdot(n, c, j):
    _start()
    sx.assume(c <= n)
    sx.assume(j < n)
    x = G.stub_array("x", (n,), (c,))
    y = G.stub_array("y", (n,), (c,))
    out = _xp().vecdot(x, y)
    _declared_ok(out, ())
    t, _ = _elem(out, ())
    sx.require(anp.term_mult(t, ("x", (j,))) == 1 and anp.term_mult(t, ("y", (j,))) == 1, "element-not-used-exactly-once", str(t))


def sc_take_indices(n, c, i0, i1, e):
    """take(x, [i0, i1]) with a concrete integer-array index"""
    _start()
    import numpy as np

    sx.assume(c <= n)
    n = sx.conc(n)  # ndindex validates the array index against a concrete shape
    a, b = sx.conc(i0), sx.conc(i1)
    sx.assume(a < n)
    sx.assume(b < n)
    x = G.stub_array("x", (n,), (c,))
    out = x[np.asarray([a, b])]
    _declared_ok(out, (2,))
    ee = sx.conc(e)
    t, _ = _elem(out, (ee,))
    _expect(t, ("elem", "x", ([a, b][ee],)))


def sc_linspace(n, c, e):
    _start()
    sx.assume(c <= n)
    sx.assume(e < n)
    out = _xp().linspace(0.0, 1.0, sx.conc(n), chunks=(sx.conc(c),), spec=G.default_spec())
    _declared_ok(out, (n,))
    if MODE == "route":
        raise _Done()


def sc_tril(n, c, e0, e1, upper=0):
    _start()
    sx.assume(c <= n)
    sx.assume(e0 < n)
    sx.assume(e1 < n)
    x = G.stub_array("x", (n, n), (c, c))
    up = sx.conc(upper)
    out = _xp().triu(x) if up else _xp().tril(x)
    _declared_ok(out, (n, n))
    # out[e0, e1] = where(row >= col, ...) with the GLOBAL row / column numbers of the element (they come from per-block offsets)
    t, _ = _elem(out, (e0, e1))
    sx.require(t[0] == "fn" and t[1] == "where" and t[2][0][0] == "fn", "tri-is-not-a-masked-copy", str(t))
    cond = t[2][0]
    vals = [a[2] for a in cond[2] if isinstance(a, tuple) and a and a[0] == "val"]
    sx.require(len(vals) == 2, "tri-mask-is-not-a-comparison-of-index-values", str(cond))
    keep_if_ge, other = (t[2][1], t[2][2])
    data = other if up else keep_if_ge
    _expect(data, ("elem", "x", (e0, e1)), "tri-copies-the-wrong-element")
    # semantics for k = 0: tril keeps x where row >= col, triu keeps x where col >= row
    sx.require(cond[1] == "greater_equal", "tri-mask-uses-another-comparison", str(cond))
    ge = vals[0] >= vals[1]
    kept = sx.snot(ge) if up else ge
    want = (e1 >= e0) if up else (e0 >= e1)
    sx.require(sx.sor(sx.sand(kept, want), sx.sand(sx.snot(kept), sx.snot(want))), "tri-keeps-the-wrong-side",
               f"mask compares {vals} for element ({e0},{e1}), upper={up}")


def sc_meshgrid3(n0, n1, n2, c, ij, which, e0, e1, e2):
    """meshgrid of THREE coordinate vectors: 'xy' swaps only the first two axes (NumPy), 'ij' none"""
    _start()
    xp = _xp()
    ns = (sx.conc(n0), sx.conc(n1), sx.conc(n2))
    c_ = sx.conc(c)
    vs = [G.stub_array(nm, (n,), (min(c_, n),)) for nm, n in zip("xyz", ns)]
    indexing = ["xy", "ij"][sx.conc(ij)]
    grids = xp.meshgrid(*vs, indexing=indexing)
    shape = (ns[1], ns[0], ns[2]) if indexing == "xy" else ns
    w = sx.conc(which)
    out = grids[w]
    _declared_ok(out, shape)
    idx = (e0, e1, e2)
    for k in range(3):
        sx.assume(idx[k] < shape[k])
    # grid w varies along the axis where input w sits: axis w for 'ij'; for 'xy' inputs 0 and 1 sit on axes 1 and 0
    axis_of = {0: 1, 1: 0, 2: 2}[w] if indexing == "xy" else w
    t, _ = _elem(out, idx)
    sx.require(anp.term_mult(t, ("xyz"[w], (idx[axis_of],))) == 1, "meshgrid-varies-along-the-wrong-axis", f"grid {w} at {idx}: {t}")


def sc_map_blocks_drop_axis2(n, m, c, c2):
    """map_blocks over TWO arrays with a dropped axis: w (m,) and y (n, m); f(w, y) = w + sum(y, axis=0).  cubed does not
    concatenate along a dropped axis, so it must refuse unless y has a single chunk along axis 0 -- whichever argument comes first"""
    _start()
    import cubed

    sx.assume(c <= n)
    sx.assume(c2 <= m)
    w = G.stub_array("w", (m,), (c2,))
    y = G.stub_array("y", (n, m), (c, c2))
    nxp_ = anp_ns()

    def f(a, b):
        return a + nxp_.sum(b, axis=0)

    out = cubed.map_blocks(f, w, y, dtype="float64", drop_axis=0, chunks=w.chunks)
    sx.require(c == n, "accepted-several-chunks-along-a-dropped-axis", f"y has chunks ({c}, {c2}) of ({n}, {m})")
    _declared_ok(out, (m,))
    if MODE == "route":
        raise _Done()


def sc_max_split(n, c, s, j):
    _start()
    sx.assume(c <= n)
    sx.assume(j < n)
    x = G.stub_array("x", (n,), (c,))
    out = _xp().max(x, split_every=s)
    _declared_ok(out, ())
    t, _ = _elem(out, ())
    m = anp.term_mult(t, ("x", (j,)))
    sx.require(m == 1, "source-element-not-considered-exactly-once", f"x[{j}] enters the maximum {m} times")


def sc_concat_axis1(n, m1, m2, c, c2, e0, e1):
    _start()
    sx.assume(c <= n)
    sx.assume(e0 < n)
    m1_, m2_ = sx.conc(m1), sx.conc(m2)
    sx.assume(c2 <= m1_)
    sx.assume(c2 <= m2_)
    x = G.stub_array("x", (n, m1_), (c, c2))
    y = G.stub_array("y", (n, m2_), (c, c2))
    out = _xp().concat([x, y], axis=1)
    _declared_ok(out, (n, m1_ + m2_))
    sx.assume(e1 < m1_ + m2_)
    t, _ = _elem(out, (e0, e1))
    if e1 < m1_:
        _expect(t, ("elem", "x", (e0, e1)))
    else:
        _expect(t, ("elem", "y", (e0, e1 - m1_)))


def sc_roll_flip_2d(n, m, c, c2, sh, which, e0, e1):
    """roll / flip along axis 1 of an (n, m) array"""
    _start()
    sx.assume(c <= n)
    sx.assume(e0 < n)
    m_ = sx.conc(m)
    sx.assume(c2 <= m_)
    sx.assume(e1 < m_)
    x = G.stub_array("x", (n, m_), (c, c2))
    if sx.conc(which) == 0:
        out = _xp().roll(x, sx.conc(sh), axis=1)
        want = (e0, (e1 - sh) % m_)
    else:
        out = _xp().flip(x, axis=1)
        want = (e0, m_ - 1 - e1)
    _declared_ok(out, (n, m_))
    t, _ = _elem(out, (e0, e1))
    _expect(t, ("elem", "x", want))


def sc_cumsum_axis1(n, m, c, c2, e0, e1, j0, j1):
    _start()
    sx.assume(c <= n)
    sx.assume(e0 < n)
    sx.assume(j0 < n)
    m_ = sx.conc(m)
    sx.assume(c2 <= m_)
    sx.assume(e1 < m_)
    sx.assume(j1 < m_)
    x = G.stub_array("x", (n, m_), (c, c2))
    out = _xp().cumulative_sum(x, axis=1)
    _declared_ok(out, (n, m_))
    t, _ = _elem(out, (e0, e1))
    mlt = anp.term_mult(t, ("x", (j0, j1)))
    sx.require(mlt == sx.ite(sx.sand(j0 == e0, j1 <= e1), 1, 0), "wrong-prefix", f"x[{j0},{j1}] contributes {mlt} times to out[{e0},{e1}]")


def sc_map_overlap(n, c, d, e):
    """map_overlap(identity-like, depth d, trimmed): out[e] = x[e]"""
    _start()
    import cubed

    sx.assume(c <= n)
    sx.assume(e < n)
    d_ = sx.conc(d)
    sx.assume(d_ <= c)
    # every chunk, including the trailing one, is at least `depth` long (dask refuses anything else; cubed does not check, and an
    # interior block next to a shorter trailing chunk then gets less halo than asked for -- noted in DESIGN.md, outside C17's space)
    sx.assume(sx.sor(n % c == 0, n % c >= d_))
    x = G.stub_array("x", (n,), (c,))
    out = cubed.map_overlap(_trim(d_), x, dtype=x.dtype, chunks=x.chunks, depth=d_, boundary=0.0)
    _declared_ok(out, (n,))
    t, _ = _elem(out, (e,))
    _expect(t, ("elem", "x", (e,)))


def _trim(d):
    def f(a):
        return a[d:a.shape[0] - d]
    return f


EXTRA_SCENARIOS = {
    "index[::step]": (sc_index_stride_full, lambda N: [("n", 1, 4 * N), ("c", 1, N + 3), ("st", 2, 3), ("p", 0, 4 * N)]),
    "linalg.qr": (sc_qr, lambda N: [("n", 1, N + 2), ("m", 1, 3), ("c", 1, N + 2)]),
    "matmul": (sc_matmul, lambda N: [("n", 1, 4 if N <= 6 else 6), ("k", 1, 3), ("m", 1, 2), ("c", 1, 4 if N <= 6 else 6), ("ck", 1, 3), ("e0", 0, 5), ("e1", 0, 1), ("r0", 0, 5), ("r1", 0, 1), ("j", 0, 2)]),
    "argmax": (sc_argmax, lambda N: [("n", 1, N), ("c", 1, N), ("s", 2, 3), ("ax", 0, 1)]),
    **{f"{k}[1d]": (_sc_reduce_1d(k), lambda N: [("n", 1, 48), ("c", 1, 24), ("s", 2, 3)]) for k in ("var-float32", "var-float64", "mean-float32", "sum-int8")},
    **{f"{k}[axis0-2d]": (_sc_reduce_axis0(k), lambda N: [("n", 1, 4), ("m", 1, N), ("c", 1, 2), ("c2", 1, N), ("s", 2, 3)]) for k in _REDUCE_KINDS},
    "map_blocks[drop_axis,two-arrays]": (sc_map_blocks_drop_axis2, lambda N: [("n", 1, 4), ("m", 1, N), ("c", 1, 4), ("c2", 1, N)]),
    "add[astype-int8]": (sc_add_astype_narrow, lambda N: [("n", 1, N), ("c", 1, N), ("e", 0, N)]),
    "tensordot[2-axes]": (sc_tensordot, lambda N: [("n", 1, 4), ("c", 1, 4), ("order", 0, 1)]),
}

SCENARIOS = {
    # name: (fn, vars with domains as functions of N)

    "pad": (sc_pad, lambda N: [("n", 1, N), ("c", 1, N), ("pl", 0, 2), ("pr", 0, 2), ("e", 0, N + 4)]),
    "diff": (sc_diff, lambda N: [("n", 2, N), ("c", 1, N), ("e", 0, N)]),
    "tile": (sc_tile, lambda N: [("n", 1, N), ("c", 1, N), ("r", 0, 3), ("e", 0, 3 * N)]),
    "where": (sc_where, lambda N: [("n", 1, N), ("c", 1, N), ("c2", 1, N), ("e", 0, N)]),
    "moveaxis": (sc_moveaxis, lambda N: [("n", 1, 4), ("m", 1, N), ("c", 1, 4), ("c2", 1, N), ("e", 0, 4), ("e2", 0, N)]),
    "linalg.outer": (sc_outer, lambda N: [("n", 1, 4), ("m", 1, N), ("c", 1, 4), ("c2", 1, N), ("e", 0, 4), ("e2", 0, N)]),
    "vecdot": (sc_vecdot, lambda N: [("n", 1, N), ("c", 1, N), ("j", 0, N)]),
    "index[int-array]": (sc_take_indices, lambda N: [("n", 1, N), ("c", 1, N), ("i0", 0, N), ("i1", 0, N), ("e", 0, 1)]),
    "linspace": (sc_linspace, lambda N: [("n", 1, N), ("c", 1, N), ("e", 0, N)]),
    "tril/triu": (sc_tril, lambda N: [("n", 1, 4), ("c", 1, 4), ("e0", 0, 4), ("e1", 0, 4), ("upper", 0, 1)]),
    "meshgrid[3-inputs]": (sc_meshgrid3, lambda N: [("n0", 1, 3), ("n1", 1, 3), ("n2", 1, 2), ("c", 1, 2), ("ij", 0, 1), ("which", 0, 2), ("e0", 0, 2), ("e1", 0, 2), ("e2", 0, 1)]),
    "max[split_every]": (sc_max_split, lambda N: [("n", 1, N + 2), ("c", 1, N + 2), ("s", 2, 4), ("j", 0, N + 2)]),
    "concat[axis1-2d]": (sc_concat_axis1, lambda N: [("n", 1, 4), ("m1", 1, 3), ("m2", 1, 3), ("c", 1, 4), ("c2", 1, 3), ("e0", 0, 3), ("e1", 0, 5)]),
    "roll/flip[axis1-2d]": (sc_roll_flip_2d, lambda N: [("n", 1, 4), ("m", 1, 4), ("c", 1, 4), ("c2", 1, 4), ("sh", -2, 3), ("which", 0, 1), ("e0", 0, 3), ("e1", 0, 3)]),
    "cumulative_sum[axis1-2d]": (sc_cumsum_axis1, lambda N: [("n", 1, 3), ("m", 1, 6), ("c", 1, 3), ("c2", 1, 6), ("e0", 0, 2), ("e1", 0, 5), ("j0", 0, 2), ("j1", 0, 5)]),
    "map_overlap": (sc_map_overlap, lambda N: [("n", 1, N), ("c", 1, N), ("d", 1, 2), ("e", 0, N)]),
    "negative": (sc_negative, lambda N: [("n", 1, N), ("c", 1, N), ("e", 0, N)]),
    "subtract[same-chunks]": (sc_add_same_chunks, lambda N: [("n", 1, N), ("c", 1, N), ("e", 0, N)]),
    "subtract[broadcast-2d]": (sc_add_broadcast_2d, lambda N: [("n", 1, 4), ("m", 1, N), ("c", 1, 4), ("c2", 1, N), ("e", 0, 4), ("e2", 0, N)]),
    "subtract[different-chunks]": (sc_add_diff_chunks, lambda N: [("n", 1, N), ("c", 1, N), ("c2", 1, N), ("e", 0, N)]),
    "sum": (sc_sum, lambda N: [("n", 1, N + 4), ("c", 1, N + 4), ("s", 2, 4), ("j", 0, N + 4)]),
    "sum[axis0-2d]": (sc_sum_axis0_2d, lambda N: [("n", 1, N), ("m", 1, 3), ("c", 1, N), ("c2", 1, 3), ("s", 2, 3), ("j", 0, N), ("j2", 0, 3), ("e2", 0, 3)]),
    "mean": (sc_mean, lambda N: [("n", 1, N), ("c", 1, N), ("s", 2, 3), ("j", 0, N)]),
    "index[slice]": (sc_index_slice, lambda N: [("n", 1, N), ("c", 1, N), ("a", 0, N), ("b", 0, N), ("st", 1, 3), ("p", 0, N)]),
    "index[int,negative-step]": (sc_index_int_negstep, lambda N: [("n", 1, 4), ("m", 1, 3), ("c", 1, 4), ("c2", 1, 3), ("i", 0, 1), ("pos", 0, 2), ("e", 0, 3), ("e2", 0, 2)]),
    "index[int-2d]": (sc_index_int_2d, lambda N: [("n", 1, 4), ("m", 1, N), ("c", 1, 4), ("c2", 1, N), ("i", 0, 4), ("e2", 0, N)]),
    "concat": (sc_concat, lambda N: [("n1", 1, N), ("n2", 1, N), ("c", 1, N), ("e", 0, 2 * N)]),
    "concat[different-chunks]": (sc_concat_diff_chunks, lambda N: [("n1", 1, N), ("n2", 1, N), ("c1", 1, N), ("c2", 1, N), ("e", 0, 2 * N)]),
    "stack": (sc_stack, lambda N: [("n", 1, N), ("c0", 1, N), ("c1", 1, N), ("k", 0, 1), ("e", 0, N)]),
    "stack[axis1]": (sc_stack_axis1, lambda N: [("n", 1, N), ("c", 1, N), ("k", 0, 1), ("e", 0, N)]),
    "expand_dims+squeeze": (sc_expand_squeeze, lambda N: [("n", 1, N), ("c", 1, N), ("e", 0, N)]),
    "repeat": (sc_repeat, lambda N: [("n", 1, N), ("c", 1, N), ("r", 1, 3), ("e", 0, 3 * N)]),
    "flip": (sc_flip, lambda N: [("n", 1, N), ("c", 1, N), ("e", 0, N)]),
    "cumulative_sum": (sc_cumsum, lambda N: [("n", 1, N + 6), ("c", 1, N + 6), ("e", 0, N + 6), ("j", 0, N + 6)]),
    "roll": (sc_roll, lambda N: [("n", 1, N), ("c", 1, N), ("sh", -2, 3), ("e", 0, N)]),
    "unstack": (sc_unstack, lambda N: [("n", 1, N), ("c", 1, N), ("w", 0, 2), ("e", 0, N)]),
    "unstack[one-block]": (sc_unstack_one_block, lambda N: [("n", 1, N), ("c", 1, N), ("w", 0, 2), ("e", 0, N)]),
    "rechunk": (sc_rechunk, lambda N: [("n", 1, N), ("c", 1, N), ("c2", 1, N), ("e", 0, N)]),
    "permute_dims": (sc_transpose, lambda N: [("n", 1, 4), ("m", 1, N), ("c", 1, 4), ("c2", 1, N), ("e", 0, N), ("e2", 0, 4)]),
    "broadcast_to": (sc_broadcast_to, lambda N: [("n", 1, N), ("c", 1, N), ("k", 0, 1), ("e", 0, N)]),
    "blocks[b]": (sc_blocks_view, lambda N: [("n", 1, N), ("c", 1, N), ("b", 0, N), ("p", 0, N)]),
    "arange": (sc_arange, lambda N: [("a", -3, 3), ("n", 1, N), ("st", -3, 3), ("c", 1, N), ("e", 0, N)]),
    "store[existing-target]": (sc_store_target, lambda N: [("n", 1, N), ("m", 1, N), ("c", 1, N), ("ct", 1, N), ("e", 0, N)]),
    "eye": (sc_eye, lambda N: [("n", 1, N), ("c", 1, N), ("k", -2, 2), ("e0", 0, N), ("e1", 0, N)]),
    "reshape[2d->1d,chunks-on-both-axes]": (sc_reshape_merge, lambda N: [("n", 1, 5), ("m", 1, 4), ("c", 1, 5), ("c2", 1, 4), ("e", 0, 20)]),
    "reshape[1d->2d]": (sc_reshape_split, lambda N: [("n", 1, 8), ("c", 1, 8), ("k", 1, 4), ("e0", 0, 8), ("e1", 0, 3)]),
    "permute_dims[3d]": (sc_permute_3d, lambda N: [("n", 1, 4), ("c", 1, 4), ("c2", 1, 3), ("perm", 0, 3), ("e0", 0, 3), ("e1", 0, 3), ("e2", 0, 3)]),
    "reshape[2d->1d]": (sc_reshape_route, lambda N: [("n", 1, N), ("m", 1, 3), ("c", 1, N), ("e", 0, 3 * N)]),
}


def _twin(fn):
    def h(**kw):
        fn(**kw)
        if kw.get("n", kw.get("n1", 0)) >= 3:
            raise sx.Violated("reached-end-with-n>=3")

    return h


def _functions():
    import cubed.array_api.manipulation_functions as mf
    import cubed.array_api.statistical_functions as sf
    import cubed.core.indexing as ci
    import cubed.core.ops as ops
    import cubed.primitive.blockwise as pb
    import cubed.utils as cu

    return [ops.blockwise, ops.general_blockwise, ops._general_blockwise, ops.elemwise, ops.unify_chunks, ops.smallest_blockdim,
            ops.partial_reduce, ops._partial_reduce, ops.tree_reduce, ops.reduction, ops.scan, ops.map_selection,
            ops._assemble_index_chunk, ops.map_blocks, ops._map_blocks, ops.rechunk, ops._rechunk_plan, ops._rechunk,
            ops.split_chunks, ops.split_chunksizes, ops.merge_chunks, ops.squeeze, ci.index, ci._target_chunk_selection,
            ci.BlockView.__getitem__, mf.concat, mf._read_concat_chunk, mf._array_slices, mf._chunk_slices, mf.stack,
            mf._read_stack_chunk, mf.unstack, mf._unstack_chunk, mf.expand_dims, mf.repeat, mf._repeat, mf.flip, mf.roll,
            mf.permute_dims, mf.broadcast_to, mf.reshape, mf.reshape_chunks, sf.mean, sf._mean_func, sf._mean_combine,
            sf.cumulative_sum, pb.general_blockwise, pb.blockwise, pb.key_to_slices, pb.map_nested, cu.get_item,
            cu.to_chunksize, cu.offset_to_block_id, cu.block_id_to_offset]


ROUTE_EXTRA = ("matmul", "add[astype-int8]", "index[::step]")


def obligations(tier):
    N = 6 if tier == "quick" else 10
    wall = 600 if tier == "quick" else 3000
    fns = _functions()
    obls = []
    route = dict(SCENARIOS)
    route.update({k: EXTRA_SCENARIOS[k] for k in ROUTE_EXTRA})  # the extra scenarios that also state the values
    from . import c01b  # second catalogue (same oracle)

    route.update(c01b.SCENARIOS)
    if tier != "quick":
        route.update(c01b.THOROUGH_ONLY)
    small = lambda vs: (lambda N: vs(max(3, N - 2)))  # noqa: E731 - index[::step] ranges over n <= 4N: keep it inside the wall budget
    route["index[::step]"] = (route["index[::step]"][0], small(route["index[::step]"][1]))
    for name, (fn, vs) in route.items():
        obls.append(
            Obl(
                f"route[{name}]",
                wrap(fn, "route", True),
                vs(N),
                allowed=ALLOWED,
                setup=setup,
                functions=fns,
                bounds=f"lengths/chunk sizes up to {N} per symbolic dim (see vars), split_every 2..4, step 1..3, repeats 1..3; every output element",
                outside="NumPy's arithmetic on block values; >2 dims; dtype casting; executors",
                stubs=["anp.Namespace (nxp)", "indexer_model (zarr OrthogonalIndexer)", "np integer kernels (unravel_index, ravel_multi_index, isnan)"],
                wall_s=wall,
                witness_rule=lambda m: any(m.get(k, 0) >= 2 for k in ("n", "n1")) ,
            )
        )
    for name in ("sum", "concat", "index[slice]"):
        fn, vs = SCENARIOS[name]
        obls.append(Obl(f"twin:route[{name}]", _twin(wrap(fn, "route", True)), vs(N), allowed=ALLOWED, setup=setup, twin_of=f"route[{name}]", wall_s=wall))
    return obls
